//! E2: the deep generation run (C06, C07) and the boundary seeds it prepares for E1.
//!
//! The history `(new_node; remove)^n` is the only history over the alphabet
//! {allocate, remove the only live node}; running it to n cycles enumerates that alphabet
//! exhaustively to that depth, across the whole range of the per-slot generation counter.
use crate::model::{Model, Status};
use crate::obs::{self, fmt_id, slot_of};
use crate::ops::guarded;
use crate::payload::Payload;
use crate::state::{Issued, State};
use crate::step::{Failure, C06, C07, C11};
use indextree::{Arena, NodeId};
use rayon::prelude::*;
use std::collections::HashSet;

#[derive(Clone, Debug, Default)]
pub struct DeepResult {
    pub cycles_done: usize,
    /// (cycle number, slot that was retired) in order
    pub retirements: Vec<(usize, usize)>,
    pub failures: Vec<(usize, Failure)>,
    pub ids: Vec<NodeId>,
    pub is_removed_checks: u64,
}

fn fail(props: u32, judge: &'static str, kind: &str, detail: String) -> Failure {
    Failure {
        props,
        judge,
        shaping: false,
        sig: format!("{judge}|deep-cycle|-|{kind}"),
        detail,
    }
}

/// One stripe of the deep run: executes the whole history and, after every step, checks
/// `is_removed` for the ids whose index ≡ stripe (mod stripes).
pub fn run_stripe(cycles: usize, stripe: usize, stripes: usize, retire_min: usize) -> DeepResult {
    let mut res = DeepResult::default();
    let mut arena: Arena<Payload> = Arena::new();
    let mut seen: HashSet<NodeId> = HashSet::new();
    let mut issues_per_slot: Vec<usize> = Vec::new();
    let mut last_slot = 0usize;
    let r = guarded(|| {
        for c in 0..cycles {
            let count0 = arena.count();
            let id = arena.new_node(Payload(0));
            let slot = slot_of(id);
            // C07: recycle the removed slot unless it may be retired
            if c > 0 {
                if slot < count0 {
                    if arena.count() != count0 {
                        res.failures.push((c, fail(C07, "slot-rule", "count-rule", format!("cycle {c}: slot {} recycled but count() went {count0} -> {}", slot + 1, arena.count()))));
                    }
                } else {
                    if arena.count() != count0 + 1 || slot != count0 {
                        res.failures.push((c, fail(C07, "slot-rule", "count-rule", format!("cycle {c}: grew into slot {} with count() {count0} -> {}", slot + 1, arena.count()))));
                    }
                    if issues_per_slot[last_slot] < retire_min {
                        res.failures.push((c, fail(C07, "slot-rule", "grew-although-free-slot-available",
                            format!("cycle {c}: the only removed slot {} (recycled {} times) was not reused", last_slot + 1, issues_per_slot[last_slot]))));
                    }
                    res.retirements.push((c, last_slot));
                }
            }
            if slot >= issues_per_slot.len() {
                issues_per_slot.resize(slot + 1, 0);
            }
            issues_per_slot[slot] += 1;
            last_slot = slot;
            // C06: never reissued
            if !seen.insert(id) {
                let first = res.ids.iter().position(|x| *x == id).unwrap_or(0);
                // (C07 too: a slot whose generations are used up is retired *for good*; an id can only come
                // back when such a slot is handed out again with its generations restarted)
                res.failures.push((c, fail(C06 | C07, "fresh-id", "id-reissued",
                    format!("cycle {c}: new_node returned {} which was already issued in cycle {first}", fmt_id(Some(id))))));
            }
            res.ids.push(id);
            if id.is_removed(&arena) {
                res.failures.push((c, fail(C06, "is_removed", "live-id-reports-removed", format!("cycle {c}: fresh id {} reports is_removed", fmt_id(Some(id))))));
            }
            // C11: the lookup paths agree for the live node, whatever the generation of its slot
            {
                let pos = std::num::NonZeroUsize::new(slot + 1).unwrap();
                let at = arena.get_node_id_at(pos);
                let back = arena.get(id).and_then(|n| arena.get_node_id(n));
                let flag = arena.get(id).map(|n| n.is_removed());
                if at != Some(id) || back != Some(id) || flag != Some(false) {
                    res.failures.push((c, fail(C11, "lookup", "lookups-disagree-for-live-node",
                        format!("cycle {c}: for the live node {}: get_node_id_at(position) = {}, get_node_id(node) = {}, Node::is_removed() = {:?}",
                            fmt_id(Some(id)), fmt_id(at), fmt_id(back), flag))));
                }
            }
            // every earlier id of this stripe must report removed while `id` is live
            let mut k = stripe;
            while k + 1 < res.ids.len() {
                res.is_removed_checks += 1;
                let old = res.ids[k];
                if old != id && !old.is_removed(&arena) {
                    res.failures.push((c, fail(C06, "is_removed", "removed-id-reports-live",
                        format!("cycle {c}: id {} issued in cycle {k} and removed since reports is_removed() == false while {} is live", fmt_id(Some(old)), fmt_id(Some(id))))));
                    break;
                }
                k += stripes;
            }
            id.remove(&mut arena);
            {
                let pos = std::num::NonZeroUsize::new(slot + 1).unwrap();
                let at = arena.get_node_id_at(pos);
                let flag = arena.as_slice().get(slot).map(|n| n.is_removed());
                if at.is_some() || flag != Some(true) {
                    res.failures.push((c, fail(C11, "lookup", "lookups-disagree-for-removed-slot",
                        format!("after cycle {c}: for the removed slot {}: get_node_id_at(position) = {}, Node::is_removed() = {:?}", slot + 1, fmt_id(at), flag))));
                }
            }
            // and all of them, including `id`, after the removal
            let mut k = stripe;
            while k < res.ids.len() {
                res.is_removed_checks += 1;
                let old = res.ids[k];
                if !old.is_removed(&arena) {
                    res.failures.push((c, fail(C06, "is_removed", "removed-id-reports-live",
                        format!("after cycle {c}: removed id {} (cycle {k}) reports is_removed() == false", fmt_id(Some(old))))));
                    break;
                }
                k += stripes;
            }
            res.cycles_done = c + 1;
            if !res.failures.is_empty() {
                break;
            }
        }
    });
    if let Err(m) = r {
        let c = res.cycles_done;
        res.failures.push((c, Failure {
            props: C06 | C07 | crate::step::C05,
            judge: "deep-run",
            shaping: true,
            sig: "deep-run|deep-cycle|-|valid-call-panicked".into(),
            detail: format!("the library panicked in cycle {c} of (new_node; remove): {m}"),
        }));
    }
    res
}

pub fn run_parallel(cycles: usize, stripes: usize, retire_min: usize) -> (DeepResult, usize) {
    let mut results: Vec<DeepResult> = (0..stripes)
        .into_par_iter()
        .map(|t| run_stripe(cycles, t, stripes, retire_min))
        .collect();
    // all stripes execute the same history: their id sequences must be identical
    // (a stripe stops at its first failure, so only the common prefix can be compared)
    let first_ids = results[0].ids.clone();
    let agree = results
        .iter()
        .filter(|r| {
            let n = r.ids.len().min(first_ids.len());
            r.ids[..n] == first_ids[..n]
        })
        .count();
    let mut total = results.remove(0);
    for r in results {
        total.is_removed_checks += r.is_removed_checks;
        for f in r.failures {
            if !total.failures.iter().any(|g| g.1.sig == f.1.sig) {
                total.failures.push(f);
            }
        }
    }
    total.failures.sort_by_key(|f| f.0);
    (total, agree)
}

/// A state whose `slots` first slots have each been through `cycles` new/remove cycles
/// (all of them removed now), prepared with plain API calls.
pub fn seed_state(cycles: usize, slots: usize) -> State {
    seed_state_at(cycles, slots, 0)
}

/// As `seed_state`, but `offset` live parentless nodes are created first, so that the cycled
/// slots are not the lowest-numbered ones (their positions relative to other free slots differ).
pub fn seed_state_at(cycles: usize, slots: usize, offset: usize) -> State {
    let mut arena: Arena<Payload> = Arena::new();
    let mut issued: Vec<Vec<NodeId>> = Vec::new();
    let mut note = |issued: &mut Vec<Vec<NodeId>>, id: NodeId| {
        let s = slot_of(id);
        if s >= issued.len() {
            issued.resize(s + 1, Vec::new());
        }
        issued[s].push(id);
    };
    let mut live: Vec<NodeId> = Vec::new();
    for i in 0..offset {
        let id = arena.new_node(Payload(i as u8));
        note(&mut issued, id);
        live.push(id);
    }
    for _ in 0..cycles {
        let mut batch = Vec::new();
        for _ in 0..slots {
            batch.push(arena.new_node(Payload(100)));
        }
        for id in batch {
            note(&mut issued, id);
            id.remove(&mut arena);
        }
    }
    let n = arena.count();
    assert_eq!(n, issued.len(), "seed: every slot was issued at least once");
    let obs = obs::observe(&arena);
    let mut model = Model::default();
    for s in 0..n {
        let is_live = live.iter().any(|id| slot_of(*id) == s);
        model.status.push(if is_live { Status::Live } else { Status::Removed });
        model.parent.push(None);
        model.children.push(Vec::new());
        model.payload.push(if is_live { s as u8 } else { 0 });
        if is_live {
            model.chains.push(vec![s]);
        }
    }
    let cur: Vec<NodeId> = issued.iter().map(|v| *v.last().unwrap()).collect();
    let issued_v: Vec<Issued> = issued.into_iter().map(Issued::from_base).collect();
    let mut st = State {
        arena,
        cur,
        issued: issued_v,
        allocs: 0,
        model,
        obs,
        key: 0,
        dbg: 0,
    };
    st.rekey();
    st
}

/// The cycle at which the single slot of `(new_node; remove)^n` stops being reused, if any
/// below `cap` (no other checks; used to place the boundary windows).
pub fn find_retirement(cap: usize) -> Option<usize> {
    let mut arena: Arena<Payload> = Arena::new();
    let mut reached = 0usize;
    let r = guarded(|| {
        for c in 0..cap {
            reached = c;
            let id = arena.new_node(Payload(0));
            if slot_of(id) > 0 {
                return Some(c);
            }
            id.remove(&mut arena);
        }
        None
    });
    match r {
        Ok(x) => x,
        // the library panicked in cycle `reached`: that is where the boundary is (the windows
        // around it will meet the panic as an outcome of a valid call)
        Err(_) => Some(reached + 1),
    }
}

pub struct IdDfsStats {
    pub paths: u64,
    pub steps: u64,
    pub is_removed_checks: u64,
    pub panics: u64,
}

/// E2b: model-free depth-first enumeration of *all* histories over {new_node, remove(any live id)}
/// of length <= depth starting at a boundary seed. Oracle (C06 only): a new id was never issued
/// before; for every id ever issued `is_removed` is false iff the node is live by the bookkeeping
/// of the calls made. Nothing is pruned: a history goes on whatever the arena looks like, as
/// long as the library does not panic.
pub fn id_history_dfs(
    seed: &State,
    depth: usize,
    max_live: usize,
    probe_c12: bool,
    stats: &mut IdDfsStats,
) -> Option<(Vec<String>, Failure)> {
    struct Ctx<'a> {
        verified: std::cell::RefCell<HashSet<String>>,
        probe_c12: bool,
        base: Vec<&'a [NodeId]>,
        depth: usize,
        max_live: usize,
    }
    fn check(arena: &Arena<Payload>, ctx: &Ctx, extra: &[(NodeId, bool, bool)], stats: &mut IdDfsStats) -> Option<Failure> {
        for (slot, b) in ctx.base.iter().enumerate().filter(|_| !ctx.probe_c12) {
            // is_removed(id) reads the node stored at id's position: the verdict for the (tens of
            // thousands of) long-removed ids of a slot is re-evaluated whenever the complete
            // rendering of that node differs from every rendering it was evaluated under before
            let rendering = match arena.as_slice().get(slot) {
                Some(n) => format!("{}:{:?}", slot, n),
                None => continue,
            };
            if ctx.verified.borrow().contains(&rendering) {
                continue;
            }
            for id in b.iter() {
                stats.is_removed_checks += 1;
                if guarded(|| id.is_removed(arena)) != Ok(true) {
                    return Some(fail(C06, "is_removed", "removed-id-reports-live",
                        format!("id {} issued and removed long ago reports is_removed() == false", fmt_id(Some(*id)))));
                }
            }
            ctx.verified.borrow_mut().insert(rendering);
        }
        // C12 probe: a removed id is refused by the checked inserts in either position
        if ctx.probe_c12 {
            if let Some((l, _, _)) = extra.iter().find(|(_, live, _)| *live) {
                for (k, (rid, live, _)) in extra.iter().enumerate() {
                    // only removed ids whose slot has not been recycled since (a stale id of a
                    // recycled slot is documented misuse and addresses the new occupant)
                    if *live || extra[k + 1..].iter().any(|(later, _, _)| usize::from(*later) == usize::from(*rid)) {
                        continue;
                    }
                    for flip in [false, true] {
                        let mut a = arena.clone();
                        let (x, y) = if flip { (*rid, *l) } else { (*l, *rid) };
                        let r = guarded(|| x.checked_append(y, &mut a));
                        if matches!(r, Ok(Ok(()))) {
                            return Some(Failure {
                                props: crate::step::C12,
                                judge: "removed-refused",
                                shaping: false,
                                sig: "removed-refused|id-history|-|removed-node-accepted".into(),
                                detail: format!("{}.checked_append({}) returned Ok although {} was removed by an earlier call", fmt_id(Some(x)), fmt_id(Some(y)), fmt_id(Some(*rid))),
                            });
                        }
                    }
                }
            }
            return None;
        }
        for (id, live, undefined) in extra {
            if *undefined {
                continue;
            }
            stats.is_removed_checks += 1;
            if guarded(|| id.is_removed(arena)) != Ok(!*live) {
                return Some(fail(C06, "is_removed", if *live { "live-id-reports-removed" } else { "removed-id-reports-live" },
                    format!("id {} is {} but reports is_removed() == {}", fmt_id(Some(*id)), if *live { "live" } else { "removed" }, *live)));
            }
        }
        None
    }
    fn rec(
        arena: &Arena<Payload>,
        ctx: &Ctx,
        extra: &mut Vec<(NodeId, bool, bool)>,
        path: &mut Vec<String>,
        stats: &mut IdDfsStats,
    ) -> Option<(Vec<String>, Failure)> {
        if path.len() == ctx.depth {
            stats.paths += 1;
            return None;
        }
        let live: Vec<usize> = (0..extra.len()).filter(|&i| extra[i].1 && !extra[i].2).collect();
        // op 0: new_node
        if live.len() < ctx.max_live {
            let mut a = arena.clone();
            stats.steps += 1;
            match guarded(|| a.new_node(Payload(0))) {
                Ok(id) => {
                    path.push("new_node".into());
                    let dup = extra.iter().any(|(x, _, _)| *x == id) || ctx.base.iter().any(|b| b.contains(&id));
                    if dup {
                        return Some((path.clone(), fail(C06, "fresh-id", "id-reissued", format!("new_node returned {} which was issued before", fmt_id(Some(id))))));
                    }
                    extra.push((id, true, false));
                    if let Some(f) = check(&a, ctx, extra, stats) {
                        return Some((path.clone(), f));
                    }
                    if let Some(r) = rec(&a, ctx, extra, path, stats) {
                        return Some(r);
                    }
                    extra.pop();
                    path.pop();
                }
                Err(_) => stats.panics += 1,
            }
        }
        // remove whose payload destructor panics: afterwards the node's fate is undefined (it is
        // skipped by the is_removed oracle), but its id must never be issued again
        if !ctx.probe_c12 && path.len() + 1 < ctx.depth {
            for &i in &live {
                if extra[i].2 {
                    continue;
                }
                let mut a = arena.clone();
                let id = extra[i].0;
                stats.steps += 1;
                crate::payload::set_bomb(Some(0));
                let r = guarded(|| id.remove(&mut a));
                crate::payload::set_bomb(None);
                if r.is_err() {
                    path.push(format!("remove {} (its payload's destructor panics)", fmt_id(Some(id))));
                    let saved = extra[i];
                    extra[i] = (id, false, true);
                    if let Some(r) = rec(&a, ctx, extra, path, stats) {
                        return Some(r);
                    }
                    extra[i] = saved;
                    path.pop();
                }
            }
        }
        for i in live {
            let mut a = arena.clone();
            let id = extra[i].0;
            stats.steps += 1;
            match guarded(|| id.remove(&mut a)) {
                Ok(()) => {
                    path.push(format!("remove {}", fmt_id(Some(id))));
                    extra[i].1 = false;
                    if let Some(f) = check(&a, ctx, extra, stats) {
                        return Some((path.clone(), f));
                    }
                    if let Some(r) = rec(&a, ctx, extra, path, stats) {
                        return Some(r);
                    }
                    extra[i].1 = true;
                    path.pop();
                }
                Err(_) => stats.panics += 1,
            }
        }
        if path.len() < ctx.depth {
            stats.paths += 1;
        }
        None
    }
    let ctx = Ctx {
        verified: std::cell::RefCell::new(HashSet::new()),
        probe_c12,
        base: seed.issued.iter().map(|i| i.base.as_slice()).collect(),
        depth,
        max_live,
    };
    rec(&seed.arena, &ctx, &mut Vec::new(), &mut Vec::new(), stats)
}

/// A configuration-independent digest of the deep history: the textual form of every id issued
/// over `cycles` cycles of (new_node; remove) and the cycles at which the arena grew (C17).
pub fn id_digest(cycles: usize) -> (u64, Vec<usize>) {
    use std::hash::{Hash, Hasher};
    let mut h = std::collections::hash_map::DefaultHasher::new();
    let mut grew = Vec::new();
    let mut arena: Arena<Payload> = Arena::new();
    let _ = guarded(|| {
        for c in 0..cycles {
            let before = arena.count();
            let id = arena.new_node(Payload(0));
            if arena.count() != before && c > 0 {
                grew.push(c);
            }
            fmt_id(Some(id)).hash(&mut h);
            id.is_removed(&arena).hash(&mut h);
            id.remove(&mut arena);
            id.is_removed(&arena).hash(&mut h);
        }
    });
    (h.finish(), grew)
}

/// The deep history with `slots` slots cycled together: (new_node x slots; remove x slots)^n.
/// Oracle (C06): every id is fresh; while the batch is live its ids report not-removed and every
/// earlier id of the stripe reports removed; after the removals every id reports removed.
pub fn run_batch_stripe(cycles: usize, slots: usize, stripe: usize, stripes: usize) -> DeepResult {
    let mut res = DeepResult::default();
    let mut arena: Arena<Payload> = Arena::new();
    let mut seen: HashSet<NodeId> = HashSet::new();
    let r = guarded(|| {
        for c in 0..cycles {
            let mut batch = Vec::new();
            for _ in 0..slots {
                let before = arena.count();
                let id = arena.new_node(Payload(0));
                // C07: the arena stays as long as it was (a removed slot was recycled) or grows by exactly
                // the slot handed out — also when the slots at its end have been retired
                let (after, slot) = (arena.count(), slot_of(id));
                if !((after == before && slot < before) || (after == before + 1 && slot == before)) {
                    res.failures.push((c, fail(C07, "slot-rule", "count-rule",
                        format!("cycle {c} of (new_node x{slots}; remove x{slots}): new_node returned slot {} and count() went {before} -> {after}", slot + 1))));
                    return;
                }
                if !seen.insert(id) {
                    res.failures.push((c, fail(C06 | C07, "fresh-id", "id-reissued",
                        format!("cycle {c} of (new_node x{slots}; remove x{slots}): new_node returned {} which was issued before", fmt_id(Some(id))))));
                    return;
                }
                batch.push(id);
            }
            for id in &batch {
                if id.is_removed(&arena) {
                    res.failures.push((c, fail(C06, "is_removed", "live-id-reports-removed",
                        format!("cycle {c}: live id {} reports is_removed", fmt_id(Some(*id))))));
                    return;
                }
            }
            let mut k = stripe;
            while k < res.ids.len() {
                res.is_removed_checks += 1;
                if !res.ids[k].is_removed(&arena) {
                    res.failures.push((c, fail(C06, "is_removed", "removed-id-reports-live",
                        format!("cycle {c} of (new_node x{slots}; remove x{slots}): id {} removed in an earlier cycle reports is_removed() == false", fmt_id(Some(res.ids[k]))))));
                    return;
                }
                k += stripes;
            }
            for id in &batch {
                res.ids.push(*id);
                id.remove(&mut arena);
            }
            let mut k = res.ids.len().saturating_sub(slots);
            while k < res.ids.len() {
                if !res.ids[k].is_removed(&arena) {
                    res.failures.push((c, fail(C06, "is_removed", "removed-id-reports-live",
                        format!("after cycle {c}: the id {} just removed reports is_removed() == false", fmt_id(Some(res.ids[k]))))));
                    return;
                }
                k += 1;
            }
            res.cycles_done = c + 1;
        }
    });
    if let Err(m) = r {
        let c = res.cycles_done;
        res.failures.push((c, Failure {
            props: C06 | C07 | crate::step::C05,
            judge: "deep-run",
            shaping: true,
            sig: "deep-run|deep-cycle|-|valid-call-panicked".into(),
            detail: format!("the library panicked in cycle {c} of (new_node x{slots}; remove x{slots}): {m}"),
        }));
    }
    res
}

/// C06 / C16: a slot recycled `cycles` times (next to a long-lived node), then a serde_json round trip:
/// the copy equals the original, agrees on is_removed for every id ever issued, and goes on issuing
/// the same — fresh — ids. Returns a description of the first disagreement.
#[cfg(feature = "it-deser")]
pub fn cycles_then_round_trip(cycles: usize) -> Option<String> {
    let r = guarded(|| -> Option<String> {
        let mut a: Arena<Payload> = Arena::new();
        let keep = a.new_node(Payload(1));
        let mut ids: Vec<NodeId> = Vec::with_capacity(cycles + 16);
        for c in 0..cycles {
            let id = keep.append_value(Payload(2), &mut a);
            ids.push(id);
            if c + 1 < cycles {
                id.remove(&mut a);
            }
        }
        let js = match serde_json::to_string(&a) {
            Ok(j) => j,
            Err(e) => return Some(format!("serialising failed: {e}")),
        };
        let mut b: Arena<Payload> = match serde_json::from_str(&js) {
            Ok(b) => b,
            Err(e) => return Some(format!("deserialising failed: {e}")),
        };
        if b != a || format!("{:?}", b) != format!("{:?}", a) {
            return Some(format!("after {cycles} reuse cycles of one slot the round-tripped copy differs from the original (last id issued: {})", fmt_id(ids.last().copied())));
        }
        for (c, id) in ids.iter().enumerate() {
            if id.is_removed(&a) != id.is_removed(&b) {
                return Some(format!("the id {} issued in cycle {c} reports is_removed() = {} in the original and {} in the copy", fmt_id(Some(*id)), id.is_removed(&a), id.is_removed(&b)));
            }
        }
        let seen: HashSet<NodeId> = ids.iter().copied().collect();
        let last = *ids.last().unwrap();
        last.remove(&mut a);
        last.remove(&mut b);
        for k in 0..10 {
            let (x, y) = (keep.append_value(Payload(3), &mut a), keep.append_value(Payload(3), &mut b));
            if x != y || seen.contains(&y) {
                return Some(format!("allocation {} after the round trip: the original issues {}, the copy {} ({})", k + 1, fmt_id(Some(x)), fmt_id(Some(y)), if seen.contains(&y) { "an id issued before" } else { "fresh" }));
            }
            x.remove(&mut a);
            y.remove(&mut b);
        }
        None
    });
    match r {
        Ok(v) => v,
        Err(m) => Some(format!("the history panicked: {m}")),
    }
}

#[cfg(not(feature = "it-deser"))]
pub fn cycles_then_round_trip(_: usize) -> Option<String> {
    None
}
