//! E2: the deep generation run (C06, C07) and the boundary seeds it prepares for E1.
//!
//! The history `(new_node; remove)^n` is the only history over the alphabet
//! {allocate, remove the only live node}; running it to n cycles enumerates that alphabet
//! exhaustively to that depth, across the whole range of the per-slot generation counter.
use crate::model::{Model, Status};
use crate::obs::{self, fmt_id, slot_of};
use crate::ops::guarded;
use crate::payload::Payload;
use crate::state::{Issued, State};
use crate::step::{Failure, C06, C07};
use indextree::{Arena, NodeId};
use rayon::prelude::*;
use std::collections::HashSet;

#[derive(Clone, Debug, Default)]
pub struct DeepResult {
    pub cycles_done: usize,
    /// (cycle number, slot that was retired) in order
    pub retirements: Vec<(usize, usize)>,
    pub failures: Vec<(usize, Failure)>,
    pub ids: Vec<NodeId>,
    pub is_removed_checks: u64,
}

fn fail(props: u32, judge: &'static str, kind: &str, detail: String) -> Failure {
    Failure {
        props,
        judge,
        shaping: false,
        sig: format!("{judge}|deep-cycle|-|{kind}"),
        detail,
    }
}

/// One stripe of the deep run: executes the whole history and, after every step, checks
/// `is_removed` for the ids whose index ≡ stripe (mod stripes).
pub fn run_stripe(cycles: usize, stripe: usize, stripes: usize, retire_min: usize) -> DeepResult {
    let mut res = DeepResult::default();
    let mut arena: Arena<Payload> = Arena::new();
    let mut seen: HashSet<NodeId> = HashSet::new();
    let mut issues_per_slot: Vec<usize> = Vec::new();
    let mut last_slot = 0usize;
    let r = guarded(|| {
        for c in 0..cycles {
            let count0 = arena.count();
            let id = arena.new_node(Payload(0));
            let slot = slot_of(id);
            // C07: recycle the removed slot unless it may be retired
            if c > 0 {
                if slot < count0 {
                    if arena.count() != count0 {
                        res.failures.push((c, fail(C07, "slot-rule", "count-rule", format!("cycle {c}: slot {} recycled but count() went {count0} -> {}", slot + 1, arena.count()))));
                    }
                } else {
                    if arena.count() != count0 + 1 || slot != count0 {
                        res.failures.push((c, fail(C07, "slot-rule", "count-rule", format!("cycle {c}: grew into slot {} with count() {count0} -> {}", slot + 1, arena.count()))));
                    }
                    if issues_per_slot[last_slot] < retire_min {
                        res.failures.push((c, fail(C07, "slot-rule", "grew-although-free-slot-available",
                            format!("cycle {c}: the only removed slot {} (recycled {} times) was not reused", last_slot + 1, issues_per_slot[last_slot]))));
                    }
                    res.retirements.push((c, last_slot));
                }
            }
            if slot >= issues_per_slot.len() {
                issues_per_slot.resize(slot + 1, 0);
            }
            issues_per_slot[slot] += 1;
            last_slot = slot;
            // C06: never reissued
            if !seen.insert(id) {
                let first = res.ids.iter().position(|x| *x == id).unwrap_or(0);
                res.failures.push((c, fail(C06, "fresh-id", "id-reissued",
                    format!("cycle {c}: new_node returned {} which was already issued in cycle {first}", fmt_id(Some(id))))));
            }
            res.ids.push(id);
            if id.is_removed(&arena) {
                res.failures.push((c, fail(C06, "is_removed", "live-id-reports-removed", format!("cycle {c}: fresh id {} reports is_removed", fmt_id(Some(id))))));
            }
            // every earlier id of this stripe must report removed while `id` is live
            let mut k = stripe;
            while k + 1 < res.ids.len() {
                res.is_removed_checks += 1;
                let old = res.ids[k];
                if old != id && !old.is_removed(&arena) {
                    res.failures.push((c, fail(C06, "is_removed", "removed-id-reports-live",
                        format!("cycle {c}: id {} issued in cycle {k} and removed since reports is_removed() == false while {} is live", fmt_id(Some(old)), fmt_id(Some(id))))));
                    break;
                }
                k += stripes;
            }
            id.remove(&mut arena);
            // and all of them, including `id`, after the removal
            let mut k = stripe;
            while k < res.ids.len() {
                res.is_removed_checks += 1;
                let old = res.ids[k];
                if !old.is_removed(&arena) {
                    res.failures.push((c, fail(C06, "is_removed", "removed-id-reports-live",
                        format!("after cycle {c}: removed id {} (cycle {k}) reports is_removed() == false", fmt_id(Some(old))))));
                    break;
                }
                k += stripes;
            }
            res.cycles_done = c + 1;
            if !res.failures.is_empty() {
                break;
            }
        }
    });
    if let Err(m) = r {
        let c = res.cycles_done;
        res.failures.push((c, Failure {
            props: C06 | C07 | crate::step::C05,
            judge: "deep-run",
            shaping: true,
            sig: "deep-run|deep-cycle|-|valid-call-panicked".into(),
            detail: format!("the library panicked in cycle {c} of (new_node; remove): {m}"),
        }));
    }
    res
}

pub fn run_parallel(cycles: usize, stripes: usize, retire_min: usize) -> (DeepResult, usize) {
    let mut results: Vec<DeepResult> = (0..stripes)
        .into_par_iter()
        .map(|t| run_stripe(cycles, t, stripes, retire_min))
        .collect();
    // all stripes execute the same history: their id sequences must be identical
    let first_ids = results[0].ids.clone();
    let agree = results.iter().filter(|r| r.ids == first_ids).count();
    let mut total = results.remove(0);
    for r in results {
        total.is_removed_checks += r.is_removed_checks;
        for f in r.failures {
            if !total.failures.iter().any(|g| g.1.sig == f.1.sig) {
                total.failures.push(f);
            }
        }
    }
    total.failures.sort_by_key(|f| f.0);
    (total, agree)
}

/// A state whose `slots` first slots have each been through `cycles` new/remove cycles
/// (all of them removed now), prepared with plain API calls.
pub fn seed_state(cycles: usize, slots: usize) -> State {
    let mut arena: Arena<Payload> = Arena::new();
    let mut issued: Vec<Vec<NodeId>> = Vec::new();
    for _ in 0..cycles {
        let mut batch = Vec::new();
        for _ in 0..slots {
            batch.push(arena.new_node(Payload(0)));
        }
        for id in batch {
            let s = slot_of(id);
            if s >= issued.len() {
                issued.resize(s + 1, Vec::new());
            }
            issued[s].push(id);
            id.remove(&mut arena);
        }
    }
    let n = arena.count();
    assert_eq!(n, issued.len(), "seed: every slot was issued at least once");
    let obs = obs::observe(&arena);
    let mut model = Model::default();
    for _ in 0..n {
        model.status.push(Status::Removed);
        model.parent.push(None);
        model.children.push(Vec::new());
        model.payload.push(0);
    }
    let cur: Vec<NodeId> = issued.iter().map(|v| *v.last().unwrap()).collect();
    let issued_v: Vec<Issued> = issued.into_iter().map(Issued::from_base).collect();
    let mut st = State {
        arena,
        cur,
        issued: issued_v,
        allocs: 0,
        model,
        obs,
        key: 0,
    };
    st.rekey();
    st
}
