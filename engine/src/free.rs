//! Model-free exploration (C01, C02): the closure of the real arena under the alphabet with *no*
//! reference model and therefore no pruning. The invariants of C01 and C02 are statements about
//! every arena a history of valid calls produces — also about arenas reached after some *other*
//! property was already violated on the way (an accepted impossible request, a node wrongly left
//! linked), which the lock-step exploration cannot follow because its model cannot represent them.
use crate::judges;
use crate::model::Ins;
use crate::obs::{self, fmt_obs, slot_of};
use crate::ops::{self, guarded, Outcome};
use crate::payload::Payload;
use crate::step::{Failure, Props, C01, C02, C04, C05, C06, C07, C08, C10, C11, C12};
use indextree::{Arena, NodeId};
use rayon::prelude::*;
use std::collections::HashSet;
use std::time::Instant;

#[derive(Clone, Copy, PartialEq, Eq, Debug, Hash)]
pub enum FOp {
    New,
    AppendValue(usize),
    /// checked insert with the ids issued for the slots
    Insert(Ins, usize, usize),
    /// the same, a removed node being addressed by the id `get_node_id` reports for it
    InsertReadBack(Ins, usize, usize),
    Detach(usize),
    Remove(usize),
    RemoveSubtree(usize),
    /// serde_json round trip (engine built with `deser`)
    RoundTrip,
    /// remove / remove_subtree of a node whose payload's destructor panics (the call unwinds)
    RemoveBomb(usize),
    RemoveSubtreeBomb(usize),
}

impl FOp {
    pub fn text(&self) -> String {
        match self {
            FOp::New => "new_node".into(),
            FOp::AppendValue(p) => format!("append_value {}", p + 1),
            FOp::Insert(i, a, b) => format!("{} {} {}", i.name(), a + 1, b + 1),
            FOp::InsertReadBack(i, a, b) => format!("{} {} {} (removed node addressed by its read-back id)", i.name(), a + 1, b + 1),
            FOp::Detach(x) => format!("detach {}", x + 1),
            FOp::Remove(x) => format!("remove {}", x + 1),
            FOp::RemoveSubtree(x) => format!("remove_subtree {}", x + 1),
            FOp::RoundTrip => "serde_round_trip".into(),
            FOp::RemoveBomb(x) => format!("remove {} (its payload's destructor panics)", x + 1),
            FOp::RemoveSubtreeBomb(x) => format!("remove_subtree {} (its payload's destructor panics)", x + 1),
        }
    }
}

#[derive(Clone)]
pub struct FState {
    pub arena: Arena<Payload>,
    /// per slot the id most recently *issued* for it
    pub cur: Vec<NodeId>,
    pub allocs: usize,
    /// destructor-bomb operations enabled (C01 only)
    pub bombs: bool,
    /// serde round trip in the alphabet (off where builds without `deser` must agree: C17)
    pub round_trip: bool,
    /// a call has unwound from the middle on this history: what it was removing may be in any state the
    /// implementation's order of steps leaves (no property says which), so from here on only plain
    /// allocations are made (the per-allocation rules: no id twice, no occupied slot, not born removed)
    pub tainted: bool,
}

fn key(s: &FState) -> u128 {
    let d = obs::debug_hash(&s.arena);
    let x = obs::hash64(&(&s.cur, s.allocs, s.tainted));
    d ^ ((x as u128) << 64 | obs::hash64(&(x, 7u8)) as u128)
}

fn live_by_flag(s: &FState, x: usize) -> bool {
    s.arena.as_slice().get(x).map(|n| !n.is_removed()).unwrap_or(false)
}

fn enabled(s: &FState, n_max: usize, a_max: usize) -> Vec<FOp> {
    let cnt = s.arena.count();
    let free = (0..cnt).filter(|&x| !live_by_flag(s, x)).count();
    let mut v = Vec::new();
    if s.tainted {
        if s.allocs < a_max + 2 {
            v.push(FOp::New);
        }
        return v;
    }
    if s.allocs < a_max && (free > 0 || cnt < n_max) {
        v.push(FOp::New);
        for x in 0..cnt {
            if live_by_flag(s, x) {
                v.push(FOp::AppendValue(x));
            }
        }
    }
    for ins in Ins::ALL {
        for a in 0..cnt {
            for b in 0..cnt {
                v.push(FOp::Insert(ins, a, b));
                if !live_by_flag(s, a) || !live_by_flag(s, b) {
                    v.push(FOp::InsertReadBack(ins, a, b));
                }
            }
        }
    }
    for x in 0..cnt {
        // remove/detach of a removed node is documented misuse: only nodes the arena itself
        // reports as live, addressed by the id issued for them
        if live_by_flag(s, x) && !guarded(|| s.cur[x].is_removed(&s.arena)).unwrap_or(true) {
            v.push(FOp::Detach(x));
            v.push(FOp::Remove(x));
            v.push(FOp::RemoveSubtree(x));
            if s.bombs {
                v.push(FOp::RemoveBomb(x));
                v.push(FOp::RemoveSubtreeBomb(x));
            }
        }
    }
    if cfg!(feature = "it-deser") && s.round_trip {
        v.push(FOp::RoundTrip);
    }
    v
}

fn apply(s: &FState, op: FOp) -> (FState, Outcome) {
    let mut n = s.clone();
    let rb = |x: usize| -> NodeId {
        if live_by_flag(s, x) {
            s.cur[x]
        } else {
            s.arena.get_node_id(&s.arena.as_slice()[x]).unwrap_or(s.cur[x])
        }
    };
    let out = match op {
        FOp::New => match guarded(|| n.arena.new_node(Payload(n.allocs as u8))) {
            Ok(id) => Outcome::Id(id),
            Err(m) => Outcome::Panic(m),
        },
        FOp::AppendValue(p) => match guarded(|| s.cur[p].append_value(Payload(n.allocs as u8), &mut n.arena)) {
            Ok(id) => Outcome::Id(id),
            Err(m) => Outcome::Panic(m),
        },
        FOp::Insert(i, a, b) => ops::checked_insert(&mut n.arena, i, s.cur[a], s.cur[b]),
        FOp::InsertReadBack(i, a, b) => ops::checked_insert(&mut n.arena, i, rb(a), rb(b)),
        FOp::Detach(x) => match guarded(|| s.cur[x].detach(&mut n.arena)) {
            Ok(()) => Outcome::Unit,
            Err(m) => Outcome::Panic(m),
        },
        FOp::Remove(x) => match guarded(|| s.cur[x].remove(&mut n.arena)) {
            Ok(()) => Outcome::Unit,
            Err(m) => Outcome::Panic(m),
        },
        FOp::RemoveSubtree(x) => match guarded(|| s.cur[x].remove_subtree(&mut n.arena)) {
            Ok(()) => Outcome::Unit,
            Err(m) => Outcome::Panic(m),
        },
        FOp::RoundTrip => ops::apply(&mut n.arena, &s.cur, ops::Op::RoundTrip, &[]),
        FOp::RemoveBomb(x) | FOp::RemoveSubtreeBomb(x) => {
            // arm the bomb for this node's payload value (payload values are unique per allocation)
            let v = guarded(|| s.arena[s.cur[x]].get().0).ok();
            crate::payload::set_bomb(v);
            let r = guarded(|| {
                if matches!(op, FOp::RemoveBomb(_)) {
                    s.cur[x].remove(&mut n.arena)
                } else {
                    s.cur[x].remove_subtree(&mut n.arena)
                }
            });
            crate::payload::set_bomb(None);
            match r {
                Ok(()) => Outcome::Unit,
                Err(m) => {
                    n.tainted = true;
                    Outcome::Panic(m)
                }
            }
        }
    };
    if let Outcome::Id(id) = &out {
        let x = slot_of(*id);
        if x < n.cur.len() {
            n.cur[x] = *id;
        } else if x == n.cur.len() {
            n.cur.push(*id);
        }
        n.allocs += 1;
    }
    // a panicking allocation may still have grown the arena: keep `cur` as long as the arena
    while n.cur.len() < n.arena.count() {
        let x = n.cur.len();
        let id = n.arena.get_node_id(&n.arena.as_slice()[x]).expect("own node");
        n.cur.push(id);
        n.allocs += 1;
    }
    (n, out)
}

pub struct FreeReport {
    pub states: u64,
    pub transitions: u64,
    pub levels: usize,
    pub exhaustive: bool,
    pub cap_hit: Option<String>,
    pub violations: Vec<(Failure, Vec<String>)>,
    pub sample: Vec<String>,
    pub wall_s: f64,
    /// configuration-independent digest of the set of states reached (Debug renderings + ids)
    pub digest: u64,
}

/// C07, model-free, per allocation: the call returns, the slot it hands out held no node the arena
/// reported live, and the new node does not report itself removed.
fn alloc_judge(s: &FState, op: FOp, n: &FState, out: &Outcome) -> Vec<Failure> {
    let mut v = Vec::new();
    // a removal that returns normally has removed its node (C04), for good (C06), and made the slot
    // available or retired it (C07); the node takes no part in any tree (C12)
    if let (FOp::Remove(x) | FOp::RemoveSubtree(x), Outcome::Unit) = (op, out) {
        if live_by_flag(n, x) || !guarded(|| s.cur[x].is_removed(&n.arena)).unwrap_or(false) {
            v.push(Failure {
                props: C04 | C06 | C07 | C12,
                judge: "removal",
                shaping: false,
                sig: format!("removal|{}|free|returned-but-node-not-removed", if matches!(op, FOp::Remove(_)) { "remove" } else { "remove_subtree" }),
                detail: format!("{} returned normally but the node still reports live; arena before: {:?}, after: {:?}", op.text(), s.arena, n.arena),
            });
        }
    }
    if !matches!(op, FOp::New | FOp::AppendValue(_)) {
        return v;
    }
    let mut push = |kind: &str, detail: String| {
        v.push(Failure {
            props: C07 | match kind { "allocation-panicked" => C05, "new-node-reports-removed" => C11 | C06 | C08, "id-issued-again" => C06, "occupied-slot-handed-out" => C08, _ => 0 },
            judge: "allocation",
            shaping: false,
            sig: format!("allocation|{}|free|{kind}", if matches!(op, FOp::New) { "new_node" } else { "append_value" }),
            detail,
        });
    };
    match out {
        Outcome::Panic(m) => push("allocation-panicked", format!("{} panicked: {m}; arena before: {:?}", op.text(), s.arena)),
        Outcome::Id(id) => {
            let x = slot_of(*id);
            if x < s.cur.len() && s.cur[x] == *id {
                push("id-issued-again", format!("{} returned {}, the id already issued for that slot; arena before: {:?}", op.text(), obs::fmt_id(Some(*id)), s.arena));
            }
            if x < s.arena.count() && live_by_flag(s, x) {
                push("occupied-slot-handed-out", format!("{} returned {} although slot {} held a node the arena reported live; arena before: {:?}", op.text(), obs::fmt_id(Some(*id)), x + 1, s.arena));
            }
            if !live_by_flag(n, x) {
                push("new-node-reports-removed", format!("the node {} just created by {} reports is_removed(); arena before: {:?}", obs::fmt_id(Some(*id)), op.text(), s.arena));
            }
        }
        _ => {}
    }
    v
}

/// Judges that need no model: J01 (C01), J02 + finite repeat-free iterators from every node the
/// arena reports live (C02).
fn judge(s: &FState, target: Props) -> (Vec<Failure>, bool) {
    let obs = match guarded(|| if s.tainted { obs::observe_tolerant(&s.arena) } else { obs::observe(&s.arena) }) {
        Ok(o) => o,
        Err(m) => {
            return (vec![Failure {
                props: C01,
                judge: "observe",
                shaping: true,
                sig: "observe|free|-|unobservable".into(),
                detail: format!("reading the arena through as_slice()/accessors panicked: {m}"),
            }], false)
        }
    };
    let mut out = Vec::new();
    if s.tainted {
        return (out, true);
    }
    if target & C01 != 0 {
        out.extend(judges::j01(&s.arena, &obs));
    }
    if target & C02 != 0 {
        out.extend(judges::j02(&obs));
    }
    // the law is evaluated wherever the sibling links are acyclic (so that the iterators end),
    // also in arenas whose links are otherwise inconsistent
    if target & C10 != 0 && judges::j02(&obs).is_empty() {
        out.extend(c10_law(&s.arena, &obs));
    }
    // a single next() of descendants/traverse can loop for ever on links that are already known to
    // be inconsistent or cyclic: the iterators are only driven over arenas whose links are sound
    let sound = judges::j01(&s.arena, &obs).is_empty() && judges::j02(&obs).is_empty();
    if target & C02 != 0 && sound {
        let n = obs.len();
        let fuel = 2 * n + 4;
        for (x, o) in obs.iter().enumerate() {
            if o.removed {
                continue;
            }
            let id = o.id;
            if let Ok((idits, edgeits)) = guarded(|| (judges::run_id_iterators(&s.arena, id, fuel), judges::run_edge_iterators(&s.arena, id, fuel))) {
                for (name, seq, overflow) in idits {
                    let mut d = seq.clone();
                    d.sort();
                    d.dedup();
                    if overflow || d.len() != seq.len() {
                        out.push(Failure {
                            props: C02,
                            judge: "iter-finite",
                            shaping: false,
                            sig: format!("iter-finite|{name}|free|{}", if overflow { "does-not-terminate" } else { "yields-node-twice" }),
                            detail: format!("{name} from slot {} does not end or repeats a node; arena: {}", x + 1, fmt_obs(&obs)),
                        });
                    }
                }
                for (name, seq, overflow) in edgeits {
                    let mut d: Vec<String> = seq.iter().map(|e| format!("{e:?}")).collect();
                    d.sort();
                    d.dedup();
                    if overflow || d.len() != seq.len() {
                        out.push(Failure {
                            props: C02,
                            judge: "iter-finite",
                            shaping: false,
                            sig: format!("iter-finite|{name}|free|{}", if overflow { "does-not-terminate" } else { "yields-edge-twice" }),
                            detail: format!("{name} from slot {} does not end or repeats an edge; arena: {}", x + 1, fmt_obs(&obs)),
                        });
                    }
                }
            }
        }
    }
    (out, sound)
}

pub fn explore(n_max: usize, a_max: usize, target: Props, threads: usize, deadline: Option<Instant>, bombs: bool) -> FreeReport {
    let t0 = Instant::now();
    let pool = rayon::ThreadPoolBuilder::new().num_threads(threads.max(1)).build().unwrap();
    // destructor bombs only where the judge is about links alone (C01)
    let init = FState { arena: Arena::new(), cur: Vec::new(), allocs: 0, bombs, round_trip: target & crate::step::C17 == 0, tainted: false };
    let mut seen: HashSet<u128> = HashSet::new();
    seen.insert(key(&init));
    // (parent index, op) per state for path reconstruction
    let mut recs: Vec<(u32, Option<FOp>)> = vec![(u32::MAX, None)];
    let mut frontier: Vec<(u32, FState)> = vec![(0, init)];
    let mut rep = FreeReport { states: 1, transitions: 0, levels: 0, exhaustive: false, cap_hit: None, violations: Vec::new(), sample: Vec::new(), wall_s: 0.0, digest: 0 };
    let path_of = |recs: &Vec<(u32, Option<FOp>)>, mut i: u32| -> Vec<String> {
        let mut v = Vec::new();
        while let (p, Some(op)) = recs[i as usize] {
            v.push(op.text());
            i = p;
        }
        v.reverse();
        v
    };
    while !frontier.is_empty() {
        if let Some(d) = deadline {
            if Instant::now() >= d {
                rep.cap_hit = Some(format!("wall-clock cap reached before level {}", rep.levels));
                break;
            }
        }
        let seen_ref = &seen;
        let chunk = (frontier.len() / (threads.max(1) * 8)).max(1);
        let outs: Vec<(Vec<(u32, FOp, FState, u128, Vec<Failure>, bool)>, u64)> = pool.install(|| {
            frontier
                .par_chunks(chunk)
                .map(|states| {
                    let mut local: HashSet<u128> = HashSet::new();
                    let mut cands = Vec::new();
                    let mut tr = 0u64;
                    for (idx, s) in states {
                        for op in enabled(s, n_max, a_max) {
                            tr += 1;
                            // publish the call in flight for the hang watchdog
                            {
                                let slot = rayon::current_thread_index().map(|i| i + 1).unwrap_or(0).min(129);
                                *crate::explore::watch_slots()[slot].lock().unwrap() = Some(crate::explore::InFlight {
                                    since: Instant::now(),
                                    arena: format!("{:?}", s.arena),
                                    init: format!("Arena::new() (model-free closure; state #{idx}, ids {:?})", s.cur),
                                    path: Vec::new(),
                                    op: None,
                                    note: Some(op.text()),
                                    removed_involved: false,
                                });
                            }
                            let (n, out) = apply(s, op);
                            let tfails = if target & (C04 | C06 | C07 | C08 | C11 | C12) != 0 { alloc_judge(s, op, &n, &out) } else { Vec::new() };
                            {
                                let slot = rayon::current_thread_index().map(|i| i + 1).unwrap_or(0).min(129);
                                *crate::explore::watch_slots()[slot].lock().unwrap() = None;
                            }
                            let k = key(&n);
                            if !seen_ref.contains(&k) && local.insert(k) {
                                let (mut fails, sound) = judge(&n, target);
                                fails.extend(tfails);
                                cands.push((*idx, op, n, k, fails, sound));
                            } else if !tfails.is_empty() {
                                // (a failing allocation into a state already known: report it all the same)
                                cands.push((*idx, op, n, k ^ 1, tfails, false));
                            }
                        }
                    }
                    (cands, tr)
                })
                .collect()
        });
        let mut next = Vec::new();
        for (cands, tr) in outs {
            rep.transitions += tr;
            for (parent, op, st, k, fails, sound) in cands {
                if !seen.insert(k) {
                    continue;
                }
                recs.push((parent, Some(op)));
                let idx = (recs.len() - 1) as u32;
                rep.states += 1;
                for f in fails {
                    if f.props & target != 0 && !rep.violations.iter().any(|(g, _)| g.sig == f.sig) {
                        rep.violations.push((f, path_of(&recs, idx)));
                    }
                }
                // C01/C02 stop at the first unsound arena anyway; for other targets an arena whose
                // links are inconsistent is judged but not expanded (calls on it may never return)
                if sound || target & (C01 | C02) != 0 {
                    next.push((idx, st));
                }
            }
        }
        rep.levels += 1;
        if let Some((idx, _)) = next.last() {
            rep.sample = path_of(&recs, *idx);
        }
        frontier = next;
        if !rep.violations.is_empty() {
            rep.cap_hit = Some(format!("stopped after level {}: violation found", rep.levels));
            break;
        }
    }
    if frontier.is_empty() && rep.cap_hit.is_none() {
        rep.exhaustive = true;
    }
    rep.wall_s = t0.elapsed().as_secs_f64();
    let mut keys: Vec<u128> = seen.into_iter().collect();
    keys.sort_unstable();
    rep.digest = obs::hash64(&(keys, rep.transitions));
    rep
}

/// C10 as a model-free law: for every node the arena reports live, the three double-ended
/// iterators pulled in any front/back pattern yield the elements of their own forward sequence,
/// front pulls in forward order, back pulls in backward order, each exactly once, then `None`.
pub fn c10_law(arena: &Arena<Payload>, obs: &[obs::SlotObs]) -> Vec<Failure> {
    c10_law_on(arena, obs, None)
}

/// The law for the live nodes in the slots `only` (all live nodes if None).
pub fn c10_law_on(arena: &Arena<Payload>, obs: &[obs::SlotObs], only: Option<&[usize]>) -> Vec<Failure> {
    let mut out = Vec::new();
    let n = obs.len();
    for (x, o) in obs.iter().enumerate() {
        if o.removed || only.map(|k| !k.contains(&x)).unwrap_or(false) {
            continue;
        }
        let id = o.id;
        for which in 0..3 {
            let name = ["children", "preceding_siblings", "following_siblings"][which];
            macro_rules! mk {
                () => {
                    match which {
                        0 => Box::new(id.children(arena)) as Box<dyn DoubleEndedIterator<Item = NodeId>>,
                        1 => Box::new(id.preceding_siblings(arena)),
                        _ => Box::new(id.following_siblings(arena)),
                    }
                };
            }
            let fwd: Vec<NodeId> = match guarded(|| mk!().take(n + 2).collect::<Vec<_>>()) {
                Ok(v) => v,
                Err(_) => continue,
            };
            if fwd.len() > n {
                continue; // not finite: C02's business
            }
            let l = fwd.len();
            let plen = l + 2;
            for pat in 0u32..(1 << plen) {
                let got = guarded(|| {
                    let mut it = mk!();
                    (0..plen).map(|k| if pat >> k & 1 == 0 { it.next() } else { it.next_back() }).collect::<Vec<_>>()
                });
                let mut exp = Vec::with_capacity(plen);
                let (mut i, mut j) = (0usize, l);
                for k in 0..plen {
                    if i >= j {
                        exp.push(None);
                    } else if pat >> k & 1 == 0 {
                        exp.push(Some(fwd[i]));
                        i += 1;
                    } else {
                        j -= 1;
                        exp.push(Some(fwd[j]));
                    }
                }
                if got.as_ref().ok() != Some(&exp) {
                    let pat_txt: String = (0..plen).map(|k| if pat >> k & 1 == 0 { 'F' } else { 'B' }).collect();
                    out.push(Failure {
                        props: C10,
                        judge: "double-ended",
                        shaping: false,
                        sig: format!("double-ended|{name}|free|pulls-disagree-with-own-forward-sequence"),
                        detail: format!(
                            "{name}({}) yields {:?} forwards, but pulled {pat_txt} (F=next, B=next_back) it gives {:?}; arena: {}",
                            x + 1,
                            fwd.iter().map(|i| obs::fmt_id(Some(*i))).collect::<Vec<_>>(),
                            got.map(|g| g.iter().map(|i| obs::fmt_id(*i)).collect::<Vec<_>>()),
                            fmt_obs(obs)
                        ),
                    });
                    break;
                }
            }
        }
    }
    out
}
