//! E3 (C14): exhaustive enumeration of debug_pretty_print inputs against a reference renderer
//! written from the property statement.
use indextree::{Arena, NodeId};
use rayon::prelude::*;
use std::collections::HashSet;
use std::fmt;
use std::fmt::Write as _;
use std::sync::atomic::{AtomicU64, Ordering};

/// renderings a payload can have ('a' is replaced per format mode so the four modes differ)
pub const ALPHABET: [&str; 6] = ["a", "a\nb", "a\n\nb", "\na", "\u{e9}\nb", "a\r\nb"];
pub const MODES: [&str; 4] = ["{}", "{:#}", "{:?}", "{:#?}"];
const MODE_CHAR: [char; 4] = ['a', 'A', 'x', 'X'];

#[derive(Clone, Copy, PartialEq, Eq, Debug)]
pub enum Chunking {
    Whole,
    PerLine,
    PerChar,
    /// every char through `write_char` (newlines included)
    WriteChar,
    /// two chunks: the first k chars, then the rest (a later chunk with a newline inside it)
    Split(u8),
}
pub const CHUNKINGS: [Chunking; 6] = [Chunking::Whole, Chunking::PerLine, Chunking::PerChar, Chunking::WriteChar, Chunking::Split(1), Chunking::Split(2)];

#[derive(Clone)]
pub struct Txt {
    pub r: u8,
    pub chunking: Chunking,
}

/// long lines (a line buffer of 16 … 65 536 bytes in the printer): rendering index 6 + 2i is one line of
/// LONG[i] chars, index 7 + 2i two such lines ("aaa…\nbbb…")
pub const LONG: [usize; 27] = [15, 16, 17, 31, 32, 33, 63, 64, 65, 127, 128, 129, 159, 160, 161, 255, 256, 257, 1023, 1024, 1025, 4095, 4096, 4097, 65535, 65536, 65537];
pub fn raw(r: u8) -> String {
    let r = r as usize;
    if r < ALPHABET.len() {
        return ALPHABET[r].to_string();
    }
    let l = LONG[(r - ALPHABET.len()) / 2];
    if (r - ALPHABET.len()) % 2 == 0 {
        "a".repeat(l)
    } else {
        format!("{}\n{}", "a".repeat(l), "b".repeat(l))
    }
}
/// a short name of a rendering for reports
pub fn raw_name(r: u8) -> String {
    let s = raw(r);
    if s.len() <= 40 {
        s
    } else if s.contains('\n') {
        format!("<two lines of {} chars>", s.len() / 2)
    } else {
        format!("<one line of {} chars>", s.len())
    }
}
fn is_heavy(r: u8) -> bool {
    (r as usize) >= ALPHABET.len() && LONG[(r as usize - ALPHABET.len()) / 2] > 5000
}
pub fn rendering(r: u8, mode: usize) -> String {
    raw(r).replace('a', &MODE_CHAR[mode].to_string())
}

impl Txt {
    fn emit(&self, f: &mut fmt::Formatter<'_>, mode: usize) -> fmt::Result {
        let s = rendering(self.r, mode);
        match self.chunking {
            Chunking::Whole => f.write_str(&s),
            Chunking::PerLine => {
                for l in s.split_inclusive('\n') {
                    f.write_str(l)?;
                }
                Ok(())
            }
            Chunking::PerChar => {
                for c in s.chars() {
                    let mut b = [0u8; 4];
                    f.write_str(c.encode_utf8(&mut b))?;
                }
                Ok(())
            }
            Chunking::WriteChar => {
                use std::fmt::Write as _;
                for c in s.chars() {
                    f.write_char(c)?;
                }
                Ok(())
            }
            Chunking::Split(k) => {
                let at = s.char_indices().nth(k as usize).map(|(i, _)| i).unwrap_or(s.len());
                f.write_str(&s[..at])?;
                if at < s.len() {
                    f.write_str(&s[at..])?;
                }
                Ok(())
            }
        }
    }
}
impl fmt::Display for Txt {
    fn fmt(&self, f: &mut fmt::Formatter<'_>) -> fmt::Result {
        self.emit(f, if f.alternate() { 1 } else { 0 })
    }
}
impl fmt::Debug for Txt {
    fn fmt(&self, f: &mut fmt::Formatter<'_>) -> fmt::Result {
        self.emit(f, if f.alternate() { 3 } else { 2 })
    }
}

/// all ordered trees with exactly n nodes, as parent arrays in pre-order (parent[0] = usize::MAX)
pub fn shapes(n: usize) -> Vec<Vec<usize>> {
    fn rec(n: usize, parent: &mut Vec<usize>, path: &mut Vec<usize>, out: &mut Vec<Vec<usize>>) {
        let i = parent.len();
        if i == n {
            out.push(parent.clone());
            return;
        }
        // the next pre-order node hangs under some node of the rightmost path
        for k in (0..path.len()).rev() {
            let p = path[k];
            let saved: Vec<usize> = path.clone();
            path.truncate(k + 1);
            path.push(i);
            parent.push(p);
            rec(n, parent, path, out);
            parent.pop();
            *path = saved;
        }
    }
    let mut out = Vec::new();
    if n == 0 {
        return out;
    }
    let mut parent = vec![usize::MAX];
    let mut path = vec![0usize];
    rec(n, &mut parent, &mut path, &mut out);
    out
}

fn children_of(parent: &[usize], v: usize) -> Vec<usize> {
    (0..parent.len()).filter(|&c| parent[c] == v).collect()
}

/// The reference renderer, straight from the statement of C14.
pub fn reference(parent: &[usize], start: usize, assign: &[u8], mode: usize) -> String {
    fn block(
        parent: &[usize],
        v: usize,
        assign: &[u8],
        mode: usize,
        // for each ancestor level below the start node: does that ancestor have a later sibling?
        guides: &mut Vec<bool>,
        is_root: bool,
        is_last: bool,
        lines: &mut Vec<String>,
    ) {
        let text = rendering(assign[v], mode);
        for (k, line) in text.split('\n').enumerate() {
            if is_root {
                lines.push(line.to_string());
            } else {
                let mut s = String::new();
                for g in guides.iter() {
                    s.push_str(if *g { "|   " } else { "    " });
                }
                s.push_str(match (k == 0, is_last) {
                    (true, false) => "|-- ",
                    (true, true) => "`-- ",
                    (false, false) => "|   ",
                    (false, true) => "    ",
                });
                s.push_str(line);
                lines.push(s);
            }
        }
        let kids = children_of(parent, v);
        if !is_root {
            guides.push(!is_last);
        }
        for (i, &c) in kids.iter().enumerate() {
            block(parent, c, assign, mode, guides, false, i + 1 == kids.len(), lines);
        }
        if !is_root {
            guides.pop();
        }
    }
    let mut lines = Vec::new();
    block(parent, start, assign, mode, &mut Vec::new(), true, true, &mut lines);
    lines.join("\n")
}

/// Build the tree in a real arena. `embedded`: hang it as the middle child of a node that has
/// a parent and siblings on both sides, and create the nodes in reverse order so that storage
/// order is unrelated to tree order.
pub fn build(parent: &[usize], assign: &[u8], chunking: Chunking, embedded: bool) -> (Arena<Txt>, Vec<NodeId>) {
    let n = parent.len();
    let mut arena: Arena<Txt> = Arena::new();
    let mk = |arena: &mut Arena<Txt>, r: u8| arena.new_node(Txt { r, chunking });
    let mut ids: Vec<Option<NodeId>> = vec![None; n];
    if embedded {
        let g = mk(&mut arena, 1);
        let p = mk(&mut arena, 2);
        let l = mk(&mut arena, 3);
        let r = mk(&mut arena, 4);
        let gl = mk(&mut arena, 1);
        let gr = mk(&mut arena, 2);
        for i in (0..n).rev() {
            ids[i] = Some(mk(&mut arena, assign[i]));
        }
        g.append(gl, &mut arena);
        g.append(p, &mut arena);
        g.append(gr, &mut arena);
        p.append(l, &mut arena);
        p.append(ids[0].unwrap(), &mut arena);
        p.append(r, &mut arena);
        // l and r get children of their own, so "later sibling has a subtree" is present too
        let lc = mk(&mut arena, 2);
        l.append(lc, &mut arena);
        let rc = mk(&mut arena, 1);
        r.append(rc, &mut arena);
    } else {
        for i in 0..n {
            ids[i] = Some(mk(&mut arena, assign[i]));
        }
    }
    let ids: Vec<NodeId> = ids.into_iter().map(|x| x.unwrap()).collect();
    for i in 1..n {
        ids[parent[i]].append(ids[i], &mut arena);
    }
    (arena, ids)
}

/// trailing blanks are not part of the property: compare lines without them
pub fn rstrip_lines(s: &str) -> String {
    s.split('\n').map(|l| l.trim_end_matches(' ')).collect::<Vec<_>>().join("\n")
}

/// a sink that refuses everything beyond its first `left` bytes
pub struct Limited {
    pub left: usize,
}
impl fmt::Write for Limited {
    fn write_str(&mut self, s: &str) -> fmt::Result {
        if s.len() > self.left {
            self.left = 0;
            Err(fmt::Error)
        } else {
            self.left -= s.len();
            Ok(())
        }
    }
}

pub fn render_real(arena: &Arena<Txt>, id: NodeId, mode: usize) -> String {
    let p = id.debug_pretty_print(arena);
    match mode {
        0 => format!("{}", p),
        1 => format!("{:#}", p),
        2 => format!("{:?}", p),
        _ => format!("{:#?}", p),
    }
}

/// assignments for a shape with n nodes: the full product if n <= full_n, else every
/// assignment with at most `k` nodes carrying a rendering other than ALPHABET[0]
pub fn assignments(n: usize, full_n: usize, k: usize) -> Vec<Vec<u8>> {
    let a = ALPHABET.len() as u8;
    let mut out = Vec::new();
    let mut cur = vec![0u8; n];
    fn rec(i: usize, n: usize, a: u8, budget: Option<usize>, cur: &mut Vec<u8>, out: &mut Vec<Vec<u8>>) {
        if i == n {
            out.push(cur.clone());
            return;
        }
        for r in 0..a {
            let nb = match budget {
                None => None,
                Some(b) => {
                    if r != 0 {
                        if b == 0 {
                            continue;
                        }
                        Some(b - 1)
                    } else {
                        Some(b)
                    }
                }
            };
            cur[i] = r;
            rec(i + 1, n, a, nb, cur, out);
        }
        cur[i] = 0;
    }
    rec(0, n, a, if n <= full_n { None } else { Some(k) }, &mut cur, &mut out);
    out
}

#[derive(Clone, Debug)]
pub struct Mismatch {
    pub parent: Vec<usize>,
    pub assign: Vec<u8>,
    pub start: usize,
    pub mode: usize,
    pub chunking: Chunking,
    pub embedded: bool,
    pub expected: String,
    pub got: Result<String, String>,
}

pub struct PpResult {
    pub evaluations: u64,
    pub distinct_nontrivial: u64,
    pub shapes: usize,
    /// order-independent hash of every real rendering (C17 compares it across feature builds)
    pub digest: u64,
    pub mismatches: Vec<Mismatch>,
    pub samples: Vec<serde_json::Value>,
    /// (shape, assignment) pairs of the long-line family
    pub long_line_cases: usize,
}

/// Deep indentation family: a spine of `depth` nested only-or-first children below the root,
/// where bit i of `mask` gives level i+1 a later sibling (so its guide is `|   `, else blank).
pub fn spine(depth: usize, mask: u128) -> Vec<usize> {
    let mut parent = vec![usize::MAX];
    let mut cur = 0usize;
    for lvl in 0..depth {
        let me = parent.len();
        parent.push(cur);
        if mask >> lvl & 1 == 1 {
            // pre-order: the later sibling must come after the whole subtree of `me`; build the
            // spine first and append the siblings afterwards (re-sorted below)
        }
        cur = me;
    }
    // later siblings, deepest first so that pre-order numbering stays valid after sorting
    let spine_nodes: Vec<usize> = (1..=depth).collect();
    let mut extra: Vec<usize> = Vec::new();
    for lvl in (0..depth).rev() {
        if mask >> lvl & 1 == 1 {
            extra.push(parent[spine_nodes[lvl]]);
        }
    }
    for p in extra {
        parent.push(p);
    }
    parent
}

pub fn run(max_n: usize, full_n: usize, k: usize) -> PpResult {
    run_with(max_n, full_n, k, 10)
}

pub fn run_with(max_n: usize, full_n: usize, k: usize, spine_depth: usize) -> PpResult {
    let mut all_shapes = Vec::new();
    for n in 1..=max_n {
        all_shapes.extend(shapes(n));
    }
    let evals = AtomicU64::new(0);
    let work: Vec<(Vec<usize>, Vec<u8>)> = all_shapes
        .iter()
        .flat_map(|p| assignments(p.len(), full_n, k).into_iter().map(move |a| (p.clone(), a)))
        .collect();
    // spines: every depth up to `spine_depth`, every pattern of later siblings, with the deepest
    // spine node (and, separately, every node) carrying a multi-line rendering
    let mut work = work;
    let mut spines = 0usize;
    for d in 1..=spine_depth {
        for mask in 0u128..(1 << d) {
            let p = spine(d, mask);
            spines += 1;
            let n = p.len();
            let mut a = vec![0u8; n];
            a[d] = 2; // the deepest spine node: "a\n\nb"
            work.push((p.clone(), a));
            work.push((p.clone(), vec![1u8; n]));
            let mut a = vec![0u8; n];
            a[d] = 3; // "\na"
            a[n - 1] = 4;
            work.push((p, a));
        }
    }
    // deep spines (an indent stack kept inline up to 8 / 16 / 32 / 64 levels): a few sibling patterns
    // per depth, fewer start nodes and chunkings (marked by a rendering index >= 100 in slot 0 … no:
    // marked by membership in `sparse`)
    let mut sparse: HashSet<(Vec<usize>, Vec<u8>)> = HashSet::new();
    let deep_depths: Vec<usize> = if spine_depth <= 10 { vec![11, 12, 15, 16, 17, 18, 31, 32, 33, 34, 63, 64, 65, 66] } else { (11..=40).chain([63, 64, 65, 66, 100, 127]).collect() };
    for d in deep_depths {
        let ones: u128 = if d >= 128 { u128::MAX } else { (1u128 << d) - 1 };
        let alt: u128 = 0x5555_5555_5555_5555_5555_5555_5555_5555 & ones;
        for mask in [0u128, ones, alt, ones ^ alt, 1u128 << (d - 1), 1, 1u128 << (d / 2), ones ^ (1u128 << (d - 1))] {
            let p = spine(d, mask);
            let n = p.len();
            spines += 1;
            let mut a = vec![0u8; n];
            a[d] = 1; // the deepest spine node: "a\nb"
            a[n - 1] = 1;
            sparse.insert((p.clone(), a.clone()));
            work.push((p, a));
        }
    }
    // long lines: every shape with <= 3 nodes and a five-level spine, one node (each in turn) or every node
    // carrying a long rendering
    let mut long_cases = 0usize;
    {
        let mut small: Vec<Vec<usize>> = (1..=3.min(max_n)).flat_map(shapes).collect();
        small.push(spine(5, 0b10101));
        for p in small {
            let n = p.len();
            for r in ALPHABET.len()..ALPHABET.len() + 2 * LONG.len() {
                let r = r as u8;
                for who in 0..=n {
                    if n > 4 && !(who == 0 || who == 5 || who == n - 1) {
                        continue;
                    }
                    let a: Vec<u8> = (0..n).map(|i| if who == n || i == who { r } else { 0 }).collect();
                    if who == n && (n == 1 || is_heavy(r)) {
                        continue;
                    }
                    long_cases += 1;
                    work.push((p.clone(), a));
                }
            }
        }
    }
    let sparse = &sparse;
    let all_shapes_len = all_shapes.len() + spines;
    let results: Vec<(Vec<Mismatch>, HashSet<u64>, u64)> = work
        .par_chunks(256)
        .map(|chunk| {
            let mut mm = Vec::new();
            let mut distinct: HashSet<u64> = HashSet::new();
            let mut dig = 0u64;
            for (parent, assign) in chunk {
                let n = parent.len();
                let is_sparse = n > 11 && sparse.contains(&(parent.clone(), assign.clone()));
                let heavy = assign.iter().any(|r| is_heavy(*r));
                for &chunking in &CHUNKINGS {
                    if (is_sparse || heavy) && !matches!(chunking, Chunking::Whole | Chunking::Split(1)) {
                        continue;
                    }
                    for embedded in [false, true] {
                        if (is_sparse || heavy) && embedded {
                            continue;
                        }
                        let (arena, ids) = build(parent, assign, chunking, embedded);
                        for start in 0..n {
                            if is_sparse && !(start <= 1 || start == n / 2) {
                                continue;
                            }
                            for mode in 0..4 {
                                let expected = reference(parent, start, assign, mode);
                                // a print that was cut short (the sink refused more bytes) must not
                                // influence the next print on the same thread
                                if n <= 4 {
                                    for cut in [2usize, 9, 17] {
                                        let _ = crate::ops::guarded(|| {
                                            let mut l = Limited { left: cut };
                                            let pr = ids[start].debug_pretty_print(&arena);
                                            let _ = match mode {
                                                0 => write!(l, "{}", pr),
                                                1 => write!(l, "{:#}", pr),
                                                2 => write!(l, "{:?}", pr),
                                                _ => write!(l, "{:#?}", pr),
                                            };
                                        });
                                    }
                                }
                                let got = crate::ops::guarded(|| render_real(&arena, ids[start], mode));
                                evals.fetch_add(1, Ordering::Relaxed);
                                dig = dig.wrapping_add(crate::obs::hash64(&(parent, assign, start, mode, embedded, format!("{:?}", chunking), &got)));
                                if children_of(parent, start).is_empty() == false {
                                    distinct.insert(crate::obs::hash64(&(mode, &expected)));
                                }
                                if got.as_ref().ok().map(|g| rstrip_lines(g)) != Some(rstrip_lines(&expected)) && mm.len() < 4 {
                                    mm.push(Mismatch {
                                        parent: parent.clone(),
                                        assign: assign.clone(),
                                        start,
                                        mode,
                                        chunking,
                                        embedded,
                                        expected,
                                        got,
                                    });
                                }
                            }
                        }
                    }
                }
            }
            (mm, distinct, dig)
        })
        .collect();
    let mut mismatches = Vec::new();
    let mut distinct: HashSet<u64> = HashSet::new();
    let mut digest = 0u64;
    for (mm, d, g) in results {
        mismatches.extend(mm);
        distinct.extend(d);
        digest = digest.wrapping_add(g);
    }
    // smallest counterexample first
    mismatches.sort_by_key(|m| (m.parent.len(), m.assign.iter().filter(|r| **r != 0).count(), m.embedded, m.start));
    let mut samples = Vec::new();
    for (parent, assign) in [
        (vec![usize::MAX, 0, 1, 0], vec![1u8, 0, 2, 3]),
        (vec![usize::MAX, 0, 0, 2, 2], vec![0u8, 4, 1, 0, 2]),
    ] {
        if parent.len() <= max_n {
            samples.push(serde_json::json!({
                "shape_parent_array": parent.iter().map(|p| if *p == usize::MAX { -1 } else { *p as i64 }).collect::<Vec<_>>(),
                "renderings": assign.iter().map(|r| ALPHABET[*r as usize]).collect::<Vec<_>>(),
                "start": 0, "mode": "{}",
                "expected_and_observed": reference(&parent, 0, &assign, 0),
            }));
        }
    }
    PpResult {
        evaluations: evals.load(Ordering::Relaxed),
        distinct_nontrivial: distinct.len() as u64,
        shapes: all_shapes_len,
        digest,
        mismatches,
        samples,
        long_line_cases: long_cases,
    }
}
