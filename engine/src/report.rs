//! Turning exploration reports into JSON run reports, replay files and VIOLATION lines.
use crate::explore::{Report, Violation};
use crate::known::Known;
use crate::ops::Op;
use crate::step::{prop_names, Props};
use serde_json::{json, Value};

pub fn buildcfg() -> String {
    let mut f: Vec<&str> = Vec::new();
    if cfg!(feature = "it-std") {
        f.push("std");
    }
    if cfg!(feature = "it-macros") {
        f.push("macros");
    }
    if cfg!(feature = "it-deser") {
        f.push("deser");
    }
    if cfg!(feature = "it-par") {
        f.push("par_iter");
    }
    format!(
        "opt-level=3 debug-assertions={} features=[{}]",
        cfg!(debug_assertions),
        f.join(",")
    )
}

pub fn sig_hash(s: &str) -> String {
    format!("{:016x}", crate::obs::hash64(&s))
}

/// A ready-to-paste plain test that rebuilds the history with ordinary API calls.
pub fn rust_test(v: &Violation) -> String {
    let mut t = String::new();
    t.push_str("#[test]\nfn replay() {\n    use indextree::{Arena, NodeId};\n");
    t.push_str("    // ids[k] = k-th id handed out; cur(ids, slot) = the latest id issued for that slot\n");
    t.push_str("    fn cur(ids: &[NodeId], slot: usize) -> NodeId { *ids.iter().rev().find(|i| usize::from(**i) == slot + 1).unwrap() }\n");
    t.push_str(&format!("    let mut arena: Arena<u8> = {};\n", if v.init.starts_with("Arena::") { v.init.clone() } else { format!("todo!(\"{}\")", v.init) }));
    t.push_str("    let mut ids: Vec<NodeId> = Vec::new();\n");
    let mut all: Vec<Op> = v.path.clone();
    if let Some(op) = v.op {
        all.push(op);
    }
    // payload values: replayed with the same mex rule; the test text uses placeholders 0,1,2
    for op in &all {
        t.push_str(&format!("    {}\n", op.rust(&[0, 1, 2])));
    }
    t.push_str(&format!("    // expected: {}\n", v.detail.replace('\n', " ")));
    t.push_str("    let _ = (&arena, &ids);\n}\n");
    t
}

pub fn write_replay(dir: &str, prop: &str, tier: &str, v: &Violation) -> String {
    let _ = std::fs::create_dir_all(dir);
    let path = format!("{}/{}-{}.json", dir, prop, sig_hash(&v.sig));
    let j = json!({
        "property": prop,
        "properties_of_judge": prop_names(v.props),
        "tier": tier,
        "buildcfg": buildcfg(),
        "bounds": {"slots": v.bounds.0, "allocations": v.bounds.1},
        "init": v.init,
        "ops": v.path.iter().map(|o| o.text()).collect::<Vec<_>>(),
        "failing_op": v.op.map(|o| o.text()),
        "judge": v.judge,
        "signature": v.sig,
        "detail": v.detail,
        "occurrences_in_run": v.count,
        "rust_test": rust_test(v),
    });
    std::fs::write(&path, serde_json::to_string_pretty(&j).unwrap()).expect("write replay");
    path
}

pub fn violation_json(v: &Violation) -> Value {
    json!({
        "signature": v.sig,
        "properties": prop_names(v.props),
        "known": v.known,
        "count": v.count,
        "init": v.init,
        "ops": v.path.iter().map(|o| o.text()).collect::<Vec<_>>(),
        "failing_op": v.op.map(|o| o.text()),
        "detail": v.detail,
    })
}

pub fn report_json(r: &Report) -> Value {
    json!({
        "bounds": {"slots": r.n, "allocations": r.a},
        "states": r.states,
        "bad_states_not_expanded": r.bad_states,
        "transitions": r.transitions,
        "levels": r.levels.iter().map(|(s, t)| json!([s, t])).collect::<Vec<_>>(),
        "completed_levels": r.completed_levels,
        "max_depth": r.max_depth,
        "exhaustive": r.exhaustive,
        "cap_hit": r.cap_hit,
        "traces_validated_against_impl": r.traces_validated,
        "pruned_out_of_scope": r.pruned,
        "transitions_by_op_and_argument_class": r.op_class,
        "outcomes_by_op": r.outcomes,
        "pull_patterns": r.pulls,
        "clear_product_steps": r.product_steps,
        "serde_lockstep_steps": r.lockstep,
        "digest_stream": r.digests.iter().map(|d| format!("{d:016x}")).collect::<Vec<_>>(),
        "samples": r.samples,
        "violations": r.violations.iter().map(violation_json).collect::<Vec<_>>(),
        "wall_s": r.wall_s,
    })
}

/// Print KNOWN-FINDING / VIOLATION lines; returns the number of unknown violations.
pub fn emit(prop: &str, target: Props, tier: &str, reports: &[Report], known: &Known, replay_dir: &str) -> usize {
    let mut unknown = 0;
    let mut printed: Vec<String> = Vec::new();
    for r in reports {
        for v in &r.violations {
            if printed.contains(&v.sig) {
                continue;
            }
            printed.push(v.sig.clone());
            if v.known {
                println!(
                    "KNOWN-FINDING: property={} {} [{}]",
                    prop,
                    known.describe(v.props & target, &v.sig),
                    v.sig
                );
            } else {
                unknown += 1;
                let path = write_replay(replay_dir, prop, tier, v);
                println!("VIOLATION property={} replay={}", prop, path);
                println!(
                    "  signature: {}\n  history  : {} {}\n  then     : {}\n  observed : {}",
                    v.sig,
                    v.init,
                    v.path.iter().map(|o| o.text()).collect::<Vec<_>>().join("; "),
                    v.op.map(|o| o.text()).unwrap_or("(state judge)".into()),
                    v.detail
                );
            }
        }
    }
    unknown
}
