//! E1: level-synchronous, deterministic, parallel breadth-first closure of the real arena's
//! reachable states under (N slots, A allocations), judged in lock-step with the model.
use crate::judges::{self, StateJudgeCounters};
use crate::known::Known;
use crate::obs;
use crate::ops::{self, Op};
use crate::payload::Payload;
use crate::state::State;
use crate::step::{self, prop_names, Failure, JudgeCfg, Props};
#[allow(unused_imports)]
use crate::state::State as _StateAlias;
use indextree::{Arena, NodeId};
use rayon::prelude::*;
use std::collections::{BTreeMap, HashMap, HashSet};
use std::sync::atomic::{AtomicBool, Ordering};
use std::sync::{Mutex, OnceLock};
use std::time::Instant;

/// One slot per worker thread: what library call is in flight (for the hang watchdog).
pub struct InFlight {
    pub since: Instant,
    pub arena: String,
    pub init: String,
    pub path: Vec<Op>,
    pub op: Option<Op>,
    /// free-form description of the call (model-free explorer)
    pub note: Option<String>,
    /// the call in flight addresses a removed node (it has to be refused: C12)
    pub removed_involved: bool,
}
static WATCH: OnceLock<Vec<Mutex<Option<InFlight>>>> = OnceLock::new();
pub fn watch_slots() -> &'static Vec<Mutex<Option<InFlight>>> {
    WATCH.get_or_init(|| (0..130).map(|_| Mutex::new(None)).collect())
}
fn my_slot() -> usize {
    rayon::current_thread_index().map(|i| i + 1).unwrap_or(0).min(129)
}

#[derive(Clone, Copy, Debug, Default)]
pub struct Profile {
    pub writes: bool,
    pub value_ops: bool,
    pub tree_ops: bool,
    /// `clear()` alone (C08: payloads are dropped when the arena is cleared)
    pub clear_op: bool,
    /// serde round trip as an operation (engine built with `deser`)
    pub round_trip: bool,
}

#[derive(Clone)]
pub enum Init {
    New,
    WithCapacity(usize),
    Default,
    /// a prepared non-initial state (E2 boundary windows): label, prefix description, state
    Seed(String, State),
}

impl Init {
    pub fn label(&self) -> String {
        match self {
            Init::New => "Arena::new()".into(),
            Init::WithCapacity(n) => format!("Arena::with_capacity({n})"),
            Init::Default => "Arena::default()".into(),
            Init::Seed(l, _) => l.clone(),
        }
    }
    pub fn state(&self) -> State {
        match self {
            Init::New => State::initial(Arena::new()),
            Init::WithCapacity(n) => State::initial(Arena::with_capacity(*n)),
            Init::Default => State::initial(Arena::default()),
            Init::Seed(_, s) => s.clone(),
        }
    }
}

#[derive(Clone)]
pub struct RunCfg {
    pub n: usize,
    pub a: usize,
    pub profile: Profile,
    pub judge: JudgeCfg,
    pub inits: Vec<Init>,
    pub threads: usize,
    pub deadline: Option<Instant>,
    pub state_cap: usize,
    pub seed: u64,
    /// re-execute every state's shortest path on a fresh arena
    pub validate_paths: bool,
    pub keep_digests: bool,
    /// audit: keep full Debug strings to detect 128-bit hash collisions
    pub collision_audit: bool,
    /// keep every legitimate state in the report (E6 and other enumerators use them)
    pub collect: bool,
    /// write every transition / state digest of this BFS level to `dump_out` (E5 diffing)
    pub dump_level: Option<usize>,
    pub dump_out: Option<String>,
}

#[derive(Clone, Debug)]
pub struct Violation {
    pub props: Props,
    pub sig: String,
    pub judge: String,
    pub detail: String,
    pub init: String,
    pub path: Vec<Op>,
    /// the failing op (None for state judges: the state reached by `path` fails)
    pub op: Option<Op>,
    pub count: u64,
    pub known: bool,
    pub bounds: (usize, usize),
}

#[derive(Default, Clone)]
pub struct Report {
    pub n: usize,
    pub a: usize,
    pub states: u64,
    pub transitions: u64,
    pub bad_states: u64,
    pub levels: Vec<(u64, u64)>,
    pub exhaustive: bool,
    pub cap_hit: Option<String>,
    pub completed_levels: usize,
    pub violations: Vec<Violation>,
    pub pruned: BTreeMap<String, u64>,
    pub op_class: BTreeMap<String, u64>,
    pub outcomes: BTreeMap<String, u64>,
    pub digests: Vec<u64>,
    pub traces_validated: u64,
    pub samples: Vec<Vec<String>>,
    pub pulls: u64,
    pub product_steps: u64,
    pub lockstep: u64,
    pub max_depth: usize,
    pub wall_s: f64,
    pub collected: Vec<State>,
}

#[derive(Clone, Copy)]
struct Rec {
    parent: u32,
    op: Op,
    dbg: u128,
    root: u16,
}

struct Cand {
    parent: u32,
    op: Op,
    st: State,
}

#[derive(Default)]
struct ChunkOut {
    cands: Vec<Cand>,
    fails: Vec<(u32, Op, Failure)>,
    transitions: u64,
    op_class: HashMap<(&'static str, &'static str), u64>,
    outcomes: HashMap<(&'static str, &'static str), u64>,
    digest: u64,
    dump: Vec<(u64, u32, Op, String)>,
}

/// Plain re-execution: no model, no judges; ids tracked through `get_node_id_at` only.
pub fn replay_debug_hash(init: Arena<Payload>, init_cur: Vec<NodeId>, path: &[Op]) -> u128 {
    let mut arena = init;
    let mut cur: Vec<NodeId> = init_cur;
    for op in path {
        // payload values: smallest values not carried by live nodes (same rule as the explorer)
        let used: Vec<u8> = arena
            .iter()
            .filter(|n| !n.is_removed())
            .map(|n| n.get().0 & !crate::payload::WRITE_BIT)
            .collect();
        let vals: Vec<u8> = (0u8..=127).filter(|v| !used.contains(v)).take(3).collect();
        let _ = ops::apply(&mut arena, &cur, *op, &vals);
        if matches!(op, Op::Clear) {
            cur.clear();
        }
        for pos in 1..=arena.count() {
            if let Some(id) = arena.get_node_id_at(std::num::NonZeroUsize::new(pos).unwrap()) {
                if pos > cur.len() {
                    cur.push(id);
                } else {
                    cur[pos - 1] = id;
                }
            }
        }
    }
    obs::debug_hash(&arena)
}

fn path_of(recs: &[Rec], mut i: u32) -> (u16, Vec<Op>) {
    let mut v = Vec::new();
    while recs[i as usize].parent != u32::MAX {
        v.push(recs[i as usize].op);
        i = recs[i as usize].parent;
    }
    v.reverse();
    (recs[i as usize].root, v)
}

pub fn explore(cfg: &RunCfg, known: &Known) -> Report {
    let t0 = Instant::now();
    let pool = rayon::ThreadPoolBuilder::new()
        .num_threads(cfg.threads.max(1))
        .build()
        .expect("thread pool");
    let mut rep = Report {
        n: cfg.n,
        a: cfg.a,
        exhaustive: false,
        ..Default::default()
    };
    let mut seen: HashSet<u128> = HashSet::new();
    let mut audit: HashMap<u128, String> = HashMap::new();
    let mut recs: Vec<Rec> = Vec::new();
    let mut frontier: Vec<(u32, State)> = Vec::new();
    let mut viol: BTreeMap<String, Violation> = BTreeMap::new();
    let mut viol_order: Vec<String> = Vec::new();
    let target = cfg.judge.target;
    let timed_out = AtomicBool::new(false);

    let mut record = |f: Failure,
                      path_idx: u32,
                      op: Option<Op>,
                      recs: &Vec<Rec>,
                      rep: &mut Report,
                      viol: &mut BTreeMap<String, Violation>,
                      viol_order: &mut Vec<String>| {
        if f.props & target != 0 {
            if let Some(v) = viol.get_mut(&f.sig) {
                v.count += 1;
            } else {
                let (root, path) = path_of(recs, path_idx);
                let is_known = known.matches(f.props & target, &f.sig);
                viol_order.push(f.sig.clone());
                viol.insert(
                    f.sig.clone(),
                    Violation {
                        props: f.props,
                        sig: f.sig.clone(),
                        judge: f.judge.to_string(),
                        detail: f.detail,
                        init: cfg.inits[root as usize].label(),
                        path,
                        op,
                        count: 1,
                        known: is_known,
                        bounds: (cfg.n, cfg.a),
                    },
                );
            }
        } else if f.shaping {
            *rep.pruned
                .entry(format!("{} [{}]", f.sig, prop_names(f.props).join(",")))
                .or_insert(0) += 1;
        }
    };

    // ---- roots ------------------------------------------------------------------------
    let mut ctr = StateJudgeCounters {
        pulls: 0,
        product_steps: 0,
        lockstep: 0,
    };
    for (ri, init) in cfg.inits.iter().enumerate() {
        let st = init.state();
        seen.insert(st.key);
        recs.push(Rec {
            parent: u32::MAX,
            op: Op::NewNode,
            dbg: st.dbg,
            root: ri as u16,
        });
        let idx = (recs.len() - 1) as u32;
        for f in judges::judge_state(&st, &cfg.judge, &cfg.profile, cfg.n, cfg.a, &mut ctr) {
            record(f, idx, None, &recs, &mut rep, &mut viol, &mut viol_order);
        }
        if cfg.collect {
            rep.collected.push(st.clone());
        }
        frontier.push((idx, st));
        rep.states += 1;
    }

    let mut level = 0usize;
    let mut sample_paths: Vec<(u16, Vec<Op>)> = Vec::new();
    while !frontier.is_empty() {
        if let Some(d) = cfg.deadline {
            if Instant::now() >= d {
                rep.cap_hit = Some(format!("wall-clock cap reached before level {level}"));
                break;
            }
        }
        if seen.len() > cfg.state_cap {
            rep.cap_hit = Some(format!("state cap {} reached before level {level}", cfg.state_cap));
            break;
        }
        // ---- phase 1: expand the frontier in parallel ---------------------------------
        let chunk = (frontier.len() / (cfg.threads.max(1) * 8)).max(1);
        let seen_ref = &seen;
        let recs_ref = &recs;
        let outs: Vec<ChunkOut> = pool.install(|| {
            frontier
                .par_chunks(chunk)
                .map(|states| {
                    let mut out = ChunkOut::default();
                    let mut local: HashSet<u128> = HashSet::new();
                    for (idx, s) in states {
                        if timed_out.load(Ordering::Relaxed) {
                            break;
                        }
                        if let Some(d) = cfg.deadline {
                            if Instant::now() >= d {
                                timed_out.store(true, Ordering::Relaxed);
                                break;
                            }
                        }
                        let mut opsv = step::enabled_ops(s, cfg.n, cfg.a, &cfg.profile);
                        if cfg.seed != 0 {
                            // permute the order operations are tried in; results must not depend on it
                            let k = (cfg.seed as usize) % opsv.len().max(1);
                            opsv.rotate_left(k);
                        }
                        {
                            let (root, path) = path_of(recs_ref, *idx);
                            *watch_slots()[my_slot()].lock().unwrap() = Some(InFlight {
                                since: Instant::now(),
                                arena: format!("{:?}", s.arena),
                                init: cfg.inits[root as usize].label(),
                                path,
                                op: None,
                                note: None,
                                removed_involved: false,
                            });
                        }
                        let before = if target & step::C13 != 0 {
                            Some(obs::debug_hash(&s.arena))
                        } else {
                            None
                        };
                        for op in opsv {
                            if let Some(w) = watch_slots()[my_slot()].lock().unwrap().as_mut() {
                                w.since = Instant::now();
                                w.op = Some(op);
                                w.removed_involved = match op {
                                    Op::AppendValue(p) | Op::TreeNest(p) => !s.model.is_live(p),
                                    Op::Insert(_, a, b) => !s.model.is_live(a) || !s.model.is_live(b),
                                    _ => false,
                                };
                            }
                            let r = step::step(s, op, &cfg.judge);
                            out.transitions += 1;
                            out.digest = out.digest.wrapping_add(r.digest);
                            if cfg.dump_level == Some(level) {
                                out.dump.push((r.digest, *idx, op, r.outcome.digest_form()));
                            }
                            *out.op_class.entry((op.kind(), r.class)).or_insert(0) += 1;
                            *out.outcomes.entry((op.kind(), r.outcome.class())).or_insert(0) += 1;
                            // history-based properties (payloads, liveness, slots) go on past a
                            // successor whose links alone differ from the model, as long as the model
                            // could be advanced; the model keeps following the documented semantics
                            let shaped_out = r
                                .failures
                                .iter()
                                .any(|f| f.shaping && !(cfg.judge.lenient_links && step::is_linkish(f)));
                            for f in r.failures {
                                out.fails.push((*idx, op, f));
                            }
                            if shaped_out {
                                continue;
                            }
                            if let Some(n) = r.next {
                                if !seen_ref.contains(&n.key) && local.insert(n.key) {
                                    out.cands.push(Cand { parent: *idx, op, st: n });
                                }
                            }
                        }
                        *watch_slots()[my_slot()].lock().unwrap() = None;
                        if let Some(b) = before {
                            if obs::debug_hash(&s.arena) != b {
                                out.fails.push((
                                    *idx,
                                    Op::NewNode,
                                    Failure {
                                        props: step::C13,
                                        judge: "clone-independence",
                                        shaping: false,
                                        sig: "clone-independence|any|-|original-changed".into(),
                                        detail: "operating on clones changed the original arena".into(),
                                    },
                                ));
                            }
                        }
                    }
                    out
                })
                .collect()
        });
        if timed_out.load(Ordering::Relaxed) {
            rep.cap_hit = Some(format!("wall-clock cap reached inside level {level}"));
            break;
        }
        // ---- phase 2: deterministic merge ------------------------------------------------
        let mut level_trans = 0u64;
        let mut level_digest = 0u64;
        let mut newstates: Vec<(u32, State)> = Vec::new();
        let mut dump_lines: Vec<String> = Vec::new();
        for out in outs {
            for (d, idx, op, oc) in &out.dump {
                let (_, path) = path_of(&recs, *idx);
                dump_lines.push(serde_json::json!({"kind": "transition", "digest": format!("{d:016x}"), "path": path.iter().map(|o| o.text()).collect::<Vec<_>>(), "op": op.text(), "outcome": oc}).to_string());
            }
            level_trans += out.transitions;
            level_digest = level_digest.wrapping_add(out.digest);
            for ((k, c), v) in out.op_class {
                *rep.op_class.entry(format!("{k} / {c}")).or_insert(0) += v;
            }
            for ((k, c), v) in out.outcomes {
                *rep.outcomes.entry(format!("{k} -> {c}")).or_insert(0) += v;
            }
            for (idx, op, f) in out.fails {
                record(f, idx, Some(op), &recs, &mut rep, &mut viol, &mut viol_order);
            }
            for c in out.cands {
                if seen.insert(c.st.key) {
                    if cfg.collision_audit {
                        audit.insert(c.st.key, format!("{:?}|{:?}|{}", c.st.arena, c.st.cur, c.st.allocs));
                    }
                    let root = recs[c.parent as usize].root;
                    recs.push(Rec {
                        parent: c.parent,
                        op: c.op,
                        dbg: c.st.dbg,
                        root,
                    });
                    newstates.push(((recs.len() - 1) as u32, c.st));
                } else if cfg.collision_audit {
                    if let Some(prev) = audit.get(&c.st.key) {
                        let now = format!("{:?}|{:?}|{}", c.st.arena, c.st.cur, c.st.allocs);
                        assert_eq!(prev, &now, "machinery error: 128-bit key collision");
                    }
                }
            }
        }
        rep.transitions += level_trans;
        // ---- phase 3: judge the new states, validate their paths ---------------------------
        let recs_ref = &recs;
        let judged: Vec<(Vec<Failure>, bool, (u64, u64, u64))> = pool.install(|| {
            newstates
                .par_iter()
                .map(|(idx, st)| {
                    let mut ctr = StateJudgeCounters { pulls: 0, product_steps: 0, lockstep: 0 };
                    let fails = judges::judge_state(st, &cfg.judge, &cfg.profile, cfg.n, cfg.a, &mut ctr);
                    let mut valid = true;
                    if cfg.validate_paths {
                        let (root, path) = path_of(recs_ref, *idx);
                        let st0 = cfg.inits[root as usize].state();
                        let h = replay_debug_hash(st0.arena, st0.cur, &path);
                        valid = h == recs_ref[*idx as usize].dbg;
                    }
                    (fails, valid, (ctr.pulls, ctr.product_steps, ctr.lockstep))
                })
                .collect()
        });
        // par_iter judge (C17/C18): sequential, on this (non-worker) thread
        let mut par_fails: Vec<(u32, Failure)> = Vec::new();
        if target & (step::C17 | step::C18) != 0 {
            for (idx, st) in &newstates {
                for f in judges::c17_par(st) {
                    par_fails.push((*idx, f));
                }
            }
        }
        for (idx, f) in par_fails {
            record(f, idx, None, &recs, &mut rep, &mut viol, &mut viol_order);
        }
        let mut next_frontier: Vec<(u32, State)> = Vec::with_capacity(newstates.len());
        let mut level_obs_digest = 0u64;
        if cfg.judge.rich_digest {
            let v: Vec<u64> = pool.install(|| {
                newstates
                    .par_iter()
                    .map(|(_, st)| obs::hash64(&(st.dbg, judges::rich_observation(st))))
                    .collect()
            });
            for (x, (idx, _)) in v.iter().zip(newstates.iter()) {
                level_obs_digest = level_obs_digest.wrapping_add(*x);
                if cfg.dump_level == Some(level) {
                    let (_, path) = path_of(&recs, *idx);
                    dump_lines.push(serde_json::json!({"kind": "state-observations", "digest": format!("{x:016x}"), "path": path.iter().map(|o| o.text()).collect::<Vec<_>>()}).to_string());
                }
            }
        }
        if cfg.dump_level == Some(level) {
            if let Some(p) = &cfg.dump_out {
                std::fs::write(p, dump_lines.join("\n")).expect("write dump");
            }
        }
        for ((idx, st), (fails, valid, (pl, ps, ls))) in newstates.into_iter().zip(judged) {
            rep.pulls += pl;
            rep.product_steps += ps;
            rep.lockstep += ls;
            if cfg.validate_paths {
                if !valid {
                    let (_, path) = path_of(&recs, idx);
                    if target & step::C13 != 0 {
                        record(
                            Failure {
                                props: step::C13,
                                judge: "path-replay",
                                shaping: true,
                                sig: "path-replay|any|-|replay-diverged".into(),
                                detail: "re-executing the state's history on a new arena gave a different arena".into(),
                            },
                            idx,
                            None,
                            &recs,
                            &mut rep,
                            &mut viol,
                            &mut viol_order,
                        );
                    } else {
                        panic!(
                            "machinery error: replay of {:?} does not reproduce the stored state",
                            path.iter().map(|o| o.text()).collect::<Vec<_>>()
                        );
                    }
                } else {
                    rep.traces_validated += 1;
                }
            }
            let bad = fails
                .iter()
                .any(|f| f.shaping && !(cfg.judge.lenient_links && step::is_linkish(f)));
            for f in fails {
                record(f, idx, None, &recs, &mut rep, &mut viol, &mut viol_order);
            }
            rep.states += 1;
            if bad {
                rep.bad_states += 1;
            } else {
                if cfg.collect {
                    rep.collected.push(st.clone());
                }
                next_frontier.push((idx, st));
            }
        }
        rep.levels.push((next_frontier.len() as u64, level_trans));
        if cfg.keep_digests {
            rep.digests.push(level_digest.wrapping_add(level_obs_digest));
        }
        level += 1;
        rep.completed_levels = level;
        // samples: first state of a few levels
        if let Some((idx, _)) = next_frontier.first() {
            if sample_paths.len() < 64 {
                sample_paths.push(path_of(&recs, *idx));
            }
        }
        if let Some((idx, _)) = next_frontier.last() {
            let p = path_of(&recs, *idx);
            rep.max_depth = rep.max_depth.max(p.1.len());
            if sample_paths.len() < 64 {
                sample_paths.push(p);
            }
        }
        frontier = next_frontier;
        // stop at the end of the first level that produced an unknown violation
        if viol.values().any(|v| !v.known) {
            rep.cap_hit = Some(format!("stopped after level {level}: violation found"));
            break;
        }
    }
    if frontier.is_empty() && rep.cap_hit.is_none() {
        rep.exhaustive = true;
    }
    // samples: shortest, a middle one, the longest
    sample_paths.sort_by_key(|p| p.1.len());
    sample_paths.dedup();
    let pick: Vec<usize> = if sample_paths.len() <= 3 {
        (0..sample_paths.len()).collect()
    } else {
        vec![1.min(sample_paths.len() - 1), sample_paths.len() / 2, sample_paths.len() - 1]
    };
    for i in pick {
        let (root, path) = &sample_paths[i];
        let mut v = vec![cfg.inits[*root as usize].label()];
        v.extend(path.iter().map(|o| o.text()));
        rep.samples.push(v);
    }
    rep.violations = viol_order.iter().map(|k| viol[k].clone()).collect();
    rep.wall_s = t0.elapsed().as_secs_f64();
    rep
}

/// Single-step exploration from larger forests than the closure reaches: every ordered tree shape
/// with up to `max_nodes` nodes is built through the explorer's own `step` (so the model is in
/// lock-step), once as a tree and once as the top-level chain left by removing its root; then every
/// operation of the alphabet is applied once and judged like any other transition, and the state
/// judges run on the shape and on every successor.
pub fn explore_shapes(cfg: &RunCfg, max_nodes: usize, known: &Known) -> Report {
    let t0 = Instant::now();
    let pool = rayon::ThreadPoolBuilder::new().num_threads(cfg.threads.max(1)).build().expect("thread pool");
    let mut shapes: Vec<Vec<usize>> = Vec::new();
    for n in 2..=max_nodes {
        shapes.extend(crate::pp::shapes(n));
    }
    // families of bigger shapes (work lists kept inline up to 8 / 16 / 32 entries, counters per level):
    // combs — a spine of d nodes each with a younger (or elder) leaf sibling, one more child under the
    // last — and brooms. For these only the transitions are judged (the per-state judges are exponential).
    let small = shapes.len();
    {
        let depths: &[usize] = if max_nodes >= 9 { &[9, 10, 17, 18, 33, 34, 65, 66] } else if max_nodes >= 8 { &[9, 17, 33] } else { &[9, 17] };
        for &d in depths {
            // younger-sibling comb: node i (spine) has children [spine i+1, leaf]
            let mut p = vec![usize::MAX];
            let mut spine = 0usize;
            for _ in 0..d {
                let me = p.len();
                p.push(spine);
                spine = me;
            }
            // (pre-order: the leaves come after the whole spine below them: append them deepest first)
            let spine_nodes: Vec<usize> = (0..=d).collect();
            let mut comb = p.clone();
            comb.push(d); // one more child under the last spine node
            for lvl in (0..d).rev() {
                comb.push(spine_nodes[lvl]);
            }
            shapes.push(comb);
            // elder-sibling comb: node i has children [leaf, spine i+1]
            let mut e = vec![usize::MAX];
            let mut cur = 0usize;
            for _ in 0..d {
                e.push(cur); // the leaf first
                let me = e.len();
                e.push(cur);
                cur = me;
            }
            shapes.push(e);
            // broom: a chain of d nodes with d leaves under the last
            let mut b = p.clone();
            for _ in 0..d {
                b.push(d);
            }
            shapes.push(b);
        }
    }
    let target = cfg.judge.target;
    let quiet = JudgeCfg::default();
    let shapes_ref = &shapes;
    let results: Vec<(u64, u64, Vec<(Failure, Vec<Op>, Option<Op>)>)> = pool.install(|| {
        shapes
            .par_iter()
            .enumerate()
            .map(|(shape_no, parent)| {
                let big = shape_no >= small;
                let _ = shapes_ref;
                let mut out: Vec<(Failure, Vec<Op>, Option<Op>)> = Vec::new();
                let (mut st_n, mut tr_n) = (0u64, 0u64);
                for chain_variant in [false, true] {
                    // build: pre-order numbering == slot numbering
                    let mut path: Vec<Op> = vec![Op::NewNode];
                    for i in 1..parent.len() {
                        path.push(Op::AppendValue(parent[i]));
                    }
                    if chain_variant {
                        if parent.iter().filter(|p| **p == 0).count() < 2 {
                            continue;
                        }
                        path.push(Op::Remove(0));
                    }
                    let mut s = State::initial(Arena::new());
                    let mut ok = true;
                    for op in &path {
                        let r = step::step(&s, *op, &quiet);
                        if r.failures.iter().any(|f| f.shaping) || r.next.is_none() {
                            ok = false; // the closure reports defects of the building calls themselves
                            break;
                        }
                        s = r.next.unwrap();
                    }
                    if !ok {
                        continue;
                    }
                    st_n += 1;
                    let mut ctr = StateJudgeCounters { pulls: 0, product_steps: 0, lockstep: 0 };
                    if !big {
                        for f in judges::judge_state(&s, &cfg.judge, &cfg.profile, 64, 64, &mut ctr) {
                            out.push((f, path.clone(), None));
                        }
                    } else if chain_variant {
                        continue;
                    }
                    for op in step::enabled_ops(&s, parent.len() + 1, 200, &cfg.profile) {
                        if big {
                            // removals, detach and moves of/under a few nodes (root, first spine nodes, the middle, the last)
                            let n = parent.len();
                            let few = |x: usize| x <= 2 || x == n / 2 || x + 2 >= n;
                            let keep = match op {
                                Op::Remove(_) | Op::RemoveSubtree(_) | Op::Detach(_) => true,
                                Op::Insert(_, a, b) => few(a) && few(b),
                                Op::AppendValue(x) => few(x),
                                Op::NewNode | Op::Clear | Op::RoundTrip => true,
                                _ => false,
                            };
                            if !keep {
                                continue;
                            }
                        }
                        tr_n += 1;
                        let r = step::step(&s, op, &cfg.judge);
                        let shaped = r.failures.iter().any(|f| f.shaping);
                        for f in r.failures {
                            out.push((f, path.clone(), Some(op)));
                        }
                        if shaped {
                            continue;
                        }
                        if big {
                            continue;
                        }
                        if let Some(n) = r.next {
                            if n.key != s.key {
                                st_n += 1;
                                let mut p2 = path.clone();
                                p2.push(op);
                                for f in judges::judge_state(&n, &cfg.judge, &cfg.profile, 64, 64, &mut ctr) {
                                    out.push((f, p2.clone(), None));
                                }
                            }
                        }
                    }
                }
                out.retain(|(f, _, _)| f.props & target != 0);
                (st_n, tr_n, out)
            })
            .collect()
    });
    let mut rep = Report { n: max_nodes, a: max_nodes + 1, exhaustive: true, ..Default::default() };
    let mut seen_sig: Vec<String> = Vec::new();
    for (st_n, tr_n, fails) in results {
        rep.states += st_n;
        rep.transitions += tr_n;
        for (f, path, op) in fails {
            if seen_sig.contains(&f.sig) {
                if let Some(v) = rep.violations.iter_mut().find(|v| v.sig == f.sig) {
                    v.count += 1;
                }
                continue;
            }
            seen_sig.push(f.sig.clone());
            let is_known = known.matches(f.props & target, &f.sig);
            rep.violations.push(Violation {
                props: f.props,
                sig: f.sig.clone(),
                judge: f.judge.to_string(),
                detail: f.detail,
                init: "Arena::new()".into(),
                path,
                op,
                count: 1,
                known: is_known,
                bounds: (max_nodes, max_nodes + 1),
            });
        }
    }
    rep.violations.sort_by_key(|v| v.path.len());
    rep.traces_validated = rep.states;
    rep.samples.push(vec![format!("{} tree shapes with 2..={} nodes, each also as the top-level chain left by removing its root; every operation applied once; plus {} combs / brooms of up to {} nodes (removals, detach and moves among a few nodes)", small, max_nodes, shapes.len() - small, shapes.iter().map(|p| p.len()).max().unwrap_or(0))]);
    rep.wall_s = t0.elapsed().as_secs_f64();
    rep
}
