//! Payload type with observable identity and an instrumented destructor (C08).
use std::cell::{Cell, RefCell};
use std::fmt;

thread_local! {
    static ARMED: Cell<bool> = const { Cell::new(false) };
    static LEDGER: RefCell<Vec<u8>> = const { RefCell::new(Vec::new()) };
}

/// Bit toggled by the `write` operation; keeps payloads of live nodes distinct.
pub const WRITE_BIT: u8 = 0x80;

#[derive(PartialEq, Eq, Hash, PartialOrd, Ord)]
pub struct Payload(pub u8);

/// Payload 0 serialises as the unit value (`null` in JSON), like `()` or `Option::None` would:
/// a live payload whose own serialised form is "nothing" must still come back as a live payload.
#[cfg(feature = "it-deser")]
impl serde::Serialize for Payload {
    fn serialize<S: serde::Serializer>(&self, s: S) -> Result<S::Ok, S::Error> {
        if self.0 == 0 {
            s.serialize_none()
        } else {
            s.serialize_some(&self.0)
        }
    }
}
#[cfg(feature = "it-deser")]
impl<'de> serde::Deserialize<'de> for Payload {
    fn deserialize<D: serde::Deserializer<'de>>(d: D) -> Result<Self, D::Error> {
        let v: Option<u8> = Option::deserialize(d)?;
        Ok(Payload(v.unwrap_or(0)))
    }
}

impl Clone for Payload {
    fn clone(&self) -> Self {
        Payload(self.0)
    }
}

impl Drop for Payload {
    fn drop(&mut self) {
        let _ = ARMED.try_with(|a| {
            if a.get() {
                let _ = LEDGER.try_with(|l| l.borrow_mut().push(self.0));
            }
        });
    }
}

impl fmt::Debug for Payload {
    fn fmt(&self, f: &mut fmt::Formatter<'_>) -> fmt::Result {
        write!(f, "{}", self.0)
    }
}

impl fmt::Display for Payload {
    fn fmt(&self, f: &mut fmt::Formatter<'_>) -> fmt::Result {
        if f.alternate() {
            write!(f, "p{}\nalt", self.0)
        } else {
            write!(f, "p{}", self.0)
        }
    }
}

/// Start recording drops on this thread (clears the ledger).
pub fn ledger_arm() {
    LEDGER.with(|l| l.borrow_mut().clear());
    ARMED.with(|a| a.set(true));
}

/// Stop recording and return the sorted multiset of dropped payload values.
pub fn ledger_take() -> Vec<u8> {
    ARMED.with(|a| a.set(false));
    let mut v = LEDGER.with(|l| std::mem::take(&mut *l.borrow_mut()));
    v.sort_unstable();
    v
}
