//! Payload type with observable identity and an instrumented destructor (C08).
use std::cell::{Cell, RefCell};
use std::fmt;

thread_local! {
    /// a payload with this value panics in its destructor (exception-safety probes)
    static BOMB: Cell<Option<u8>> = const { Cell::new(None) };
    /// a payload with this value panics when it is cloned (one shot)
    static CLONE_BOMB: Cell<Option<u8>> = const { Cell::new(None) };
    static ARMED: Cell<bool> = const { Cell::new(false) };
    static LEDGER: RefCell<Vec<u8>> = const { RefCell::new(Vec::new()) };
}

/// Bit toggled by the `write` operation; keeps payloads of live nodes distinct.
pub const WRITE_BIT: u8 = 0x80;

#[derive(PartialEq, Eq, Hash, PartialOrd, Ord)]
pub struct Payload(pub u8);

/// The payload's serialised form is deliberately not a plain number: 0 serialises as "nothing"
/// (`null` in JSON, like `()` or `Option::None`), every other value as a one-entry map with an
/// integer key and a `u128` value (like a `BTreeMap<u32, u128>` field would). A correct arena
/// round trip cannot depend on what the payload's own encoding looks like.
#[cfg(feature = "it-deser")]
impl serde::Serialize for Payload {
    fn serialize<S: serde::Serializer>(&self, s: S) -> Result<S::Ok, S::Error> {
        struct Rich(u8);
        impl serde::Serialize for Rich {
            fn serialize<S: serde::Serializer>(&self, s: S) -> Result<S::Ok, S::Error> {
                use serde::ser::SerializeMap;
                let mut m = s.serialize_map(Some(1))?;
                m.serialize_entry(&(self.0 as u32), &(self.0 as u128 + 1000))?;
                m.end()
            }
        }
        if self.0 == 0 {
            s.serialize_none()
        } else {
            s.serialize_some(&Rich(self.0))
        }
    }
}
#[cfg(feature = "it-deser")]
impl<'de> serde::Deserialize<'de> for Payload {
    fn deserialize<D: serde::Deserializer<'de>>(d: D) -> Result<Self, D::Error> {
        let v: Option<std::collections::BTreeMap<u32, u128>> = Option::deserialize(d)?;
        match v {
            None => Ok(Payload(0)),
            Some(m) => {
                let (k, val) = m.into_iter().next().ok_or_else(|| serde::de::Error::custom("empty payload map"))?;
                if val != k as u128 + 1000 {
                    return Err(serde::de::Error::custom("payload value does not match its key"));
                }
                Ok(Payload(k as u8))
            }
        }
    }
}

impl Clone for Payload {
    fn clone(&self) -> Self {
        if CLONE_BOMB.try_with(|b| b.get()).ok().flatten() == Some(self.0) {
            CLONE_BOMB.with(|b| b.set(None));
            panic!("payload clone panics");
        }
        Payload(self.0)
    }
}

/// Arm (Some(v)) or disarm (None) the clone bomb for payload value `v` on this thread.
pub fn set_clone_bomb(v: Option<u8>) {
    CLONE_BOMB.with(|b| b.set(v));
}

/// Arm (Some(v)) or disarm (None) the destructor bomb for payload value `v` on this thread.
pub fn set_bomb(v: Option<u8>) {
    BOMB.with(|b| b.set(v));
}

impl Drop for Payload {
    fn drop(&mut self) {
        if BOMB.try_with(|b| b.get()).ok().flatten() == Some(self.0) && !std::thread::panicking() {
            BOMB.with(|b| b.set(None));
            panic!("payload destructor panics");
        }
        let _ = ARMED.try_with(|a| {
            if a.get() {
                let _ = LEDGER.try_with(|l| l.borrow_mut().push(self.0));
            }
        });
    }
}

impl fmt::Debug for Payload {
    fn fmt(&self, f: &mut fmt::Formatter<'_>) -> fmt::Result {
        write!(f, "{}", self.0)
    }
}

impl fmt::Display for Payload {
    fn fmt(&self, f: &mut fmt::Formatter<'_>) -> fmt::Result {
        if f.alternate() {
            write!(f, "p{}\nalt", self.0)
        } else {
            write!(f, "p{}", self.0)
        }
    }
}

/// Start recording drops on this thread (clears the ledger).
pub fn ledger_arm() {
    LEDGER.with(|l| l.borrow_mut().clear());
    ARMED.with(|a| a.set(true));
}

/// Stop recording and return the sorted multiset of dropped payload values.
pub fn ledger_take() -> Vec<u8> {
    ARMED.with(|a| a.set(false));
    let mut v = LEDGER.with(|l| std::mem::take(&mut *l.borrow_mut()));
    v.sort_unstable();
    v
}
