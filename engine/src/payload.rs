//! Payload type with observable identity and an instrumented destructor (C08).
use std::cell::{Cell, RefCell};
use std::fmt;

thread_local! {
    static ARMED: Cell<bool> = const { Cell::new(false) };
    static LEDGER: RefCell<Vec<u8>> = const { RefCell::new(Vec::new()) };
}

/// Bit toggled by the `write` operation; keeps payloads of live nodes distinct.
pub const WRITE_BIT: u8 = 0x80;

#[derive(PartialEq, Eq, Hash, PartialOrd, Ord)]
#[cfg_attr(feature = "it-deser", derive(serde::Serialize, serde::Deserialize))]
pub struct Payload(pub u8);

impl Clone for Payload {
    fn clone(&self) -> Self {
        Payload(self.0)
    }
}

impl Drop for Payload {
    fn drop(&mut self) {
        let _ = ARMED.try_with(|a| {
            if a.get() {
                let _ = LEDGER.try_with(|l| l.borrow_mut().push(self.0));
            }
        });
    }
}

impl fmt::Debug for Payload {
    fn fmt(&self, f: &mut fmt::Formatter<'_>) -> fmt::Result {
        write!(f, "{}", self.0)
    }
}

impl fmt::Display for Payload {
    fn fmt(&self, f: &mut fmt::Formatter<'_>) -> fmt::Result {
        if f.alternate() {
            write!(f, "p{}\nalt", self.0)
        } else {
            write!(f, "p{}", self.0)
        }
    }
}

/// Start recording drops on this thread (clears the ledger).
pub fn ledger_arm() {
    LEDGER.with(|l| l.borrow_mut().clear());
    ARMED.with(|a| a.set(true));
}

/// Stop recording and return the sorted multiset of dropped payload values.
pub fn ledger_take() -> Vec<u8> {
    ARMED.with(|a| a.set(false));
    let mut v = LEDGER.with(|l| std::mem::take(&mut *l.borrow_mut()));
    v.sort_unstable();
    v
}
