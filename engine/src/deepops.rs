//! Deep-structure operations (C02–C05, C09, C10, C14, C18): chains 200 000 levels deep and sibling
//! chains 200 000 long, operated on from a thread with a 1 MiB stack. A library routine that
//! recurses once per level / per sibling overflows that stack and the process aborts; the driver
//! runs this command as a subprocess (in an unoptimised build too, where tail calls are not turned
//! into loops) and reports abnormal termination as a violation naming the step printed last.
use indextree::{Arena, NodeEdge, NodeId};
use std::fmt::Write as _;

fn step(name: &str) {
    // flushed line by line so that the driver sees it even if the process aborts right after
    println!("STEP {name}");
}

fn fail(prop: &str, what: &str) -> ! {
    println!("DEEPOPS-WRONG property={prop} {what}");
    std::process::exit(1);
}

fn chain(depth: usize) -> (Arena<u32>, Vec<NodeId>) {
    let mut a: Arena<u32> = Arena::new();
    let root = a.new_node(0);
    let mut ids = vec![root];
    for k in 1..depth {
        let c = ids[k - 1].append_value(k as u32, &mut a);
        ids.push(c);
    }
    (a, ids)
}

fn top_chain(n: usize) -> (Arena<u32>, Vec<NodeId>) {
    let mut a: Arena<u32> = Arena::new();
    let mut ids = vec![a.new_node(0)];
    for k in 1..n {
        let x = a.new_node(k as u32);
        ids[k - 1].insert_after(x, &mut a);
        ids.push(x);
    }
    (a, ids)
}

trait ContainsId {
    fn contains_slot_id(&self, id: NodeId) -> bool;
}
impl ContainsId for Vec<NodeId> {
    /// (the removed ids are those of the even positions, in slot order: a direct index)
    fn contains_slot_id(&self, id: NodeId) -> bool {
        let slot = usize::from(id);
        slot >= 2 && (slot - 2) % 2 == 0 && self.get((slot - 2) / 2) == Some(&id)
    }
}

struct CountSink {
    bytes: usize,
    lines: usize,
}
impl std::fmt::Write for CountSink {
    fn write_str(&mut self, s: &str) -> std::fmt::Result {
        self.bytes += s.len();
        self.lines += s.bytes().filter(|b| *b == b'\n').count();
        Ok(())
    }
}

#[allow(deprecated)]
pub fn run(prop: &str, depth: usize) {
    let p = prop.to_string();
    let h = std::thread::Builder::new()
        .stack_size(1 << 20)
        .spawn(move || {
            let prop = p.as_str();
            let inserts = matches!(prop, "C02" | "C03" | "C05" | "C12");
            let removes = matches!(prop, "C02" | "C04" | "C07" | "C08");
            let iters = matches!(prop, "C02" | "C09" | "C10" | "C18");
            let print = matches!(prop, "C02" | "C14");
            if inserts {
                step("build a chain and insert below its deepest node (checked_append / prepend / insert_after / insert_before)");
                let (mut a, ids) = chain(depth);
                let leaf = *ids.last().unwrap();
                let n1 = a.new_node(1);
                let n2 = a.new_node(2);
                let n3 = a.new_node(3);
                let n4 = a.new_node(4);
                if leaf.checked_append(n1, &mut a).is_err() || leaf.checked_prepend(n2, &mut a).is_err()
                    || n1.checked_insert_after(n3, &mut a).is_err() || n1.checked_insert_before(n4, &mut a).is_err()
                {
                    fail(prop, "a possible insert below a deep node was refused");
                }
                let kids: Vec<NodeId> = leaf.children(&a).collect();
                if kids != vec![n2, n4, n1, n3] {
                    fail(prop, "children of the deep node are not in the requested order");
                }
                step("move a subtree from the top of the chain to its bottom, and refuse the converse");
                let side = ids[0].append_value(9, &mut a);
                if n3.checked_append(side, &mut a).is_err() || a[side].parent() != Some(n3) {
                    fail(prop, "moving a node below a deep node failed");
                }
                if ids[0].checked_append(ids[0], &mut a).is_ok() || leaf.checked_append(ids[1], &mut a).is_ok() {
                    fail(prop, "an ancestor was accepted below its deep descendant");
                }
                step("detach the deepest node");
                n1.detach(&mut a);
                if a[n1].parent().is_some() {
                    fail(prop, "detach of a deep node left its parent link");
                }
            }
            if removes {
                step("remove_subtree of a node with a deep chain below it");
                let (mut a, ids) = chain(depth);
                let before = ids[0].append_value(7, &mut a);
                ids[0].prepend(before, &mut a);
                let after = ids[0].append_value(8, &mut a);
                ids[1].remove_subtree(&mut a);
                if !ids[depth - 1].is_removed(&a) || before.is_removed(&a) || after.is_removed(&a) || ids[0].children(&a).count() != 2 {
                    fail(prop, "remove_subtree of a deep subtree removed the wrong set of nodes");
                }
                step("remove nodes in the middle of a deep chain; drop the arena");
                let (mut a, ids) = chain(depth);
                ids[depth / 2].remove(&mut a);
                ids[1].remove(&mut a);
                if ids[0].descendants(&a).count() != depth - 2 {
                    fail(prop, "remove in a deep chain lost or kept the wrong nodes");
                }
                drop(a);
                step("remove the first node of a long top-level chain, remove_subtree another");
                let (mut a, ids) = top_chain(depth);
                ids[0].remove(&mut a);
                ids[5].remove_subtree(&mut a);
                if ids[1].following_siblings(&a).count() != depth - 2 {
                    fail(prop, "removal in a long top-level chain lost or kept the wrong nodes");
                }
            }
            if iters {
                step("every iterator over a deep chain");
                let (a, ids) = chain(depth);
                let (root, leaf) = (ids[0], ids[depth - 1]);
                if root.descendants(&a).count() != depth || root.traverse(&a).count() != 2 * depth
                    || root.reverse_traverse(&a).count() != 2 * depth || leaf.ancestors(&a).count() != depth
                    || leaf.predecessors(&a).count() != depth || root.descendants(&a).last() != Some(leaf)
                {
                    fail(prop, "an iterator over a deep chain yields the wrong number of items");
                }
                let mut it = root.descendants(&a);
                for _ in 0..depth {
                    it.next();
                }
                if it.next().is_some() {
                    fail(prop, "descendants over a deep chain does not end");
                }
                let mut e = Some(NodeEdge::End(leaf));
                let mut k = 0usize;
                while let Some(x) = e {
                    e = x.next_traverse(&a);
                    k += 1;
                }
                if k != depth {
                    fail(prop, "next_traverse stepping out of a deep chain takes the wrong number of steps");
                }
                step("sibling iterators over a long top-level chain, from both ends");
                let (a, ids) = top_chain(depth);
                let (first, last) = (ids[0], ids[depth - 1]);
                if first.following_siblings(&a).count() != depth || last.preceding_siblings(&a).count() != depth
                    || first.following_siblings(&a).rev().count() != depth || last.preceding_siblings(&a).rev().count() != depth
                    || first.following_siblings(&a).next_back() != Some(last) || last.preceding_siblings(&a).next_back() != Some(first)
                    || ids[depth / 2].following_siblings(&a).next() != Some(ids[depth / 2])
                {
                    fail(prop, "a sibling iterator over a long top-level chain yields the wrong items");
                }
                step("children of a node with very many children, from both ends");
                let mut w: Arena<u32> = Arena::new();
                let pnode = w.new_node(0);
                let mut kids = Vec::new();
                for k in 0..depth {
                    kids.push(pnode.append_value(k as u32, &mut w));
                }
                if pnode.children(&w).count() != depth || pnode.children(&w).rev().count() != depth || pnode.reverse_children(&w).count() != depth
                    || kids[0].following_siblings(&w).rev().next() != Some(kids[depth - 1])
                {
                    fail(prop, "children of a very wide node are not all yielded");
                }
            }
            if print {
                step("pretty-print a chain 4000 levels deep in all four modes on a 64 KiB stack");
                let prop2 = prop.to_string();
                let t = std::thread::Builder::new().stack_size(64 << 10).spawn(move || {
                let prop = prop2.as_str();
                let (a, ids) = chain(4000);
                for mode in 0..4 {
                    let mut sink = CountSink { bytes: 0, lines: 0 };
                    let pr = ids[0].debug_pretty_print(&a);
                    let r = match mode {
                        0 => write!(sink, "{}", pr),
                        1 => write!(sink, "{:#}", pr),
                        2 => write!(sink, "{:?}", pr),
                        _ => write!(sink, "{:#?}", pr),
                    };
                    if r.is_err() || sink.lines != 3999 {
                        fail(prop, "pretty-printing a deep chain gives the wrong number of lines");
                    }
                }
                }).expect("spawn");
                if t.join().is_err() {
                    fail(prop, "pretty-printing a deep chain panicked");
                }
                step("pretty-print a payload of 20 000 lines written as one chunk, below a root with a later sibling, on a 64 KiB stack");
                let prop2 = prop.to_string();
                let t = std::thread::Builder::new().stack_size(64 << 10).spawn(move || {
                    let prop = prop2.as_str();
                    let mut a: Arena<String> = Arena::new();
                    let root = a.new_node("root".to_string());
                    let lines = 20_000usize;
                    let big: String = (0..lines).map(|i| if i % 7 == 3 { String::new() } else { format!("line {i}") }).collect::<Vec<_>>().join("\n");
                    root.append_value(big, &mut a);
                    root.append_value("tail".to_string(), &mut a);
                    for mode in 0..2 {
                        let mut out = String::new();
                        let pr = root.debug_pretty_print(&a);
                        let r = if mode == 0 { write!(out, "{}", pr) } else { write!(out, "{:#}", pr) };
                        let got: Vec<&str> = out.lines().collect();
                        if r.is_err() || got.len() != lines + 2 || got[0] != "root" || got[1] != "|-- line 0" || got[2] != "|   line 1"
                            || got[4].trim_end() != "|" || got[lines] != format!("|   line {}", lines - 1) || got[lines + 1] != "`-- tail"
                        {
                            fail(prop, "a payload of 20 000 lines is not drawn as one block under its guides");
                        }
                    }
                }).expect("spawn");
                if t.join().is_err() {
                    fail(prop, "pretty-printing a payload of 20 000 lines panicked");
                }
                if !cfg!(debug_assertions) {
                    step("pretty-print a chain 17 000 levels deep whose last node renders as two lines (17 000 blank guides), all four modes");
                    let mut a: Arena<String> = Arena::new();
                    let root = a.new_node("r".to_string());
                    let mut cur = root;
                    let depth = 17_000usize;
                    for k in 1..depth {
                        cur = cur.append_value(if k + 1 == depth { "x\ny".to_string() } else { "n".to_string() }, &mut a);
                    }
                    for mode in 0..4 {
                        let mut sink = CountSink { bytes: 0, lines: 0 };
                        let pr = root.debug_pretty_print(&a);
                        let r = match mode {
                            0 => write!(sink, "{}", pr),
                            1 => write!(sink, "{:#}", pr),
                            2 => write!(sink, "{:?}", pr),
                            _ => write!(sink, "{:#?}", pr),
                        };
                        // (Debug of a String escapes the newline: one line less in modes 2 and 3)
                        let want = if mode < 2 { depth } else { depth - 1 };
                        if r.is_err() || sink.lines != want {
                            fail(prop, &format!("pretty-printing a chain of {depth} only-children gives {} line breaks, expected {want}", sink.lines));
                        }
                    }
                }
            }
            if matches!(prop, "C06" | "C07" | "C08" | "C11") {
                // counters / indices narrower than usize (a free-list link or a position kept in 16 bits)
                let n = 70_000usize;
                step("an arena with 70 000 slots: lookups for every id");
                let mut a: Arena<u32> = Arena::new();
                let root = a.new_node(u32::MAX);
                let mut ids: Vec<NodeId> = Vec::with_capacity(n);
                for k in 0..n {
                    ids.push(root.append_value(k as u32, &mut a));
                }
                for (k, id) in ids.iter().enumerate() {
                    let pos = std::num::NonZeroUsize::new(k + 2).unwrap();
                    if usize::from(*id) != k + 2 || a.get_node_id_at(pos) != Some(*id) || a.get_node_id(&a[*id]) != Some(*id) || *a[*id].get() != k as u32
                        || !std::ptr::eq(&a.as_slice()[k + 1], &a[*id]) || id.to_string() != (k + 2).to_string()
                    {
                        fail(prop, &format!("lookups disagree for the node in slot {}", k + 2));
                    }
                }
                if a.count() != n + 1 || a.iter().count() != n + 1 || a.as_slice().len() != n + 1 {
                    fail(prop, "count(), iter().count() and as_slice().len() disagree in a big arena");
                }
                step("remove every other node of 70 000, then allocate as many again: slots recycled, none lost, none handed out twice");
                let removed: Vec<NodeId> = ids.iter().copied().step_by(2).collect();
                for id in &removed {
                    id.remove(&mut a);
                }
                let count0 = a.count();
                let mut fresh: Vec<NodeId> = Vec::with_capacity(removed.len());
                let mut slots_seen = vec![false; count0 + 1];
                for j in 0..removed.len() {
                    let id = a.new_node(1_000_000 + j as u32);
                    let slot = usize::from(id);
                    if a.count() != count0 {
                        fail(prop, &format!("allocation {} after 35 000 removals grew the arena although removed slots were available", j + 1));
                    }
                    if slot > count0 || slots_seen[slot] || (slot - 2) % 2 != 0 || slot < 2 {
                        fail(prop, &format!("allocation {} returned slot {slot}, which is occupied or was handed out already", j + 1));
                    }
                    slots_seen[slot] = true;
                    if id.is_removed(&a) || a[id].is_removed() || removed.contains_slot_id(id) {
                        fail(prop, &format!("allocation {} returned an id that is stale or reports removed", j + 1));
                    }
                    fresh.push(id);
                }
                let next = a.new_node(7);
                if usize::from(next) != count0 + 1 || a.count() != count0 + 1 {
                    fail(prop, "with no removed slot left the arena did not grow by exactly one slot");
                }
                for id in &removed {
                    if !id.is_removed(&a) {
                        fail(prop, "an id removed earlier reports live after its slot was recycled");
                    }
                }
                for (k, id) in ids.iter().enumerate() {
                    if k % 2 == 1 && (id.is_removed(&a) || *a[*id].get() != k as u32 || a[*id].parent() != Some(root)) {
                        fail(prop, &format!("the untouched node in slot {} lost its payload, parent or liveness", k + 2));
                    }
                }
                for (j, id) in fresh.iter().enumerate() {
                    if *a[*id].get() != 1_000_000 + j as u32 || a[*id].parent().is_some() {
                        fail(prop, "a node created in a recycled slot does not hold its own payload / starts with a link");
                    }
                }
                if root.children(&a).count() != n / 2 {
                    fail(prop, "the parent of 70 000 children does not have 35 000 after every other one was removed");
                }
            }
            #[cfg(feature = "it-deser")]
            if prop == "C16" {
                let rt = |a: &Arena<u32>, what: &str| {
                    let js = match serde_json::to_string(a) {
                        Ok(j) => j,
                        Err(e) => fail(prop, &format!("serialising {what} failed: {e}")),
                    };
                    let b: Arena<u32> = match serde_json::from_str(&js) {
                        Ok(b) => b,
                        Err(e) => fail(prop, &format!("deserialising {what} failed: {e}")),
                    };
                    if b != *a || format!("{:?}", b) != format!("{:?}", a) {
                        fail(prop, &format!("the round-tripped copy of {what} differs from the original"));
                    }
                    b
                };
                step("round trips of arenas with 9 to 13, 99 to 102, 130 and 1001 slots (live, removed, recycled and pending slots mixed)");
                for n in [9usize, 10, 11, 12, 13, 99, 100, 101, 102, 130, 1001] {
                    let mut a: Arena<u32> = Arena::new();
                    let mut ids: Vec<NodeId> = Vec::new();
                    for k in 0..n {
                        let id = a.new_node(k as u32);
                        // a forest: every third node a root, the others appended / prepended to an earlier node
                        if k % 3 == 1 { ids[k / 2].append(id, &mut a); } else if k % 3 == 2 { ids[k / 3].prepend(id, &mut a); }
                        ids.push(id);
                    }
                    // remove some, recycle some of those (so that generations differ), leave some pending
                    let mut removed = Vec::new();
                    for k in (2..n).step_by(4) { ids[k].remove(&mut a); removed.push(k); }
                    for j in 0..removed.len() / 2 { let id = a.new_node(5000 + j as u32); ids[0].append(id, &mut a); ids[usize::from(id) - 1] = id; }
                    let b = rt(&a, &format!("an arena with {n} slots"));
                    for (k, id) in ids.iter().enumerate() {
                        if id.is_removed(&a) != id.is_removed(&b) || a.get(*id).map(|x| (x.parent(), x.first_child(), x.next_sibling(), x.is_removed())) != b.get(*id).map(|x| (x.parent(), x.first_child(), x.next_sibling(), x.is_removed()))
                            || (!id.is_removed(&a) && a[*id].get() != b[*id].get())
                        {
                            fail(prop, &format!("in the copy of an arena with {n} slots the id issued for slot {} addresses a different node", k + 1));
                        }
                    }
                    // the copy continues alike
                    let (mut a2, mut b2) = (a.clone(), b);
                    for j in 0..3 { if a2.new_node(j) != b2.new_node(j) { fail(prop, &format!("the copy of an arena with {n} slots issues different ids afterwards")); } }
                    if a2 != b2 { fail(prop, &format!("the copy of an arena with {n} slots diverges under further calls")); }
                }
                step("round trip after 70 000 / 32 767 / 32 768 / 32 769 reuse cycles of one slot");
                for cyc in [70_000usize, 32_767, 32_768, 32_769] {
                    if let Some(why) = crate::deep::cycles_then_round_trip(cyc) {
                        fail(prop, &why);
                    }
                }
                step("round trip of a chain grown from the top (every child in a higher slot than its parent)");
                let (a, _) = chain(depth);
                rt(&a, "a deep chain grown from the top");
                step("round trip of a chain grown from the bottom (every node in a lower slot than its parent)");
                let mut a: Arena<u32> = Arena::new();
                let mut top = a.new_node(0);
                for k in 1..depth { let n = a.new_node(k as u32); n.append(top, &mut a); top = n; }
                rt(&a, "a deep chain grown from the bottom");
                step("round trip of a node with very many children and of a long top-level chain");
                let mut w: Arena<u32> = Arena::new();
                let pnode = w.new_node(0);
                for k in 0..depth { pnode.append_value(k as u32, &mut w); }
                rt(&w, "a very wide node");
                let (a, _) = top_chain(depth);
                rt(&a, "a long top-level chain");
            }
            step("done");
        })
        .expect("spawn");
    if h.join().is_err() {
        println!("DEEPOPS-WRONG property={prop} the library panicked in the step printed last");
        std::process::exit(1);
    }
}
