//! What the real arena shows through its public API (the abstraction function α) and
//! the canonical state key.
use crate::payload::Payload;
use indextree::{Arena, NodeId};
use std::fmt::Write as _;
use std::hash::{Hash, Hasher};

#[derive(Clone, PartialEq, Eq, Debug, Hash)]
pub struct SlotObs {
    /// `get_node_id(&slot)`: position + the slot's *current* stamp
    pub id: NodeId,
    pub removed: bool,
    /// parent, previous_sibling, next_sibling, first_child, last_child
    pub links: [Option<NodeId>; 5],
    pub payload: Option<u8>,
}

pub const LINK_NAMES: [&str; 5] = [
    "parent",
    "previous_sibling",
    "next_sibling",
    "first_child",
    "last_child",
];

pub fn slot_of(id: NodeId) -> usize {
    usize::from(id) - 1
}

/// α: one record per storage slot, read through `as_slice()` and the `Node` accessors.
/// As `observe`, but a live-looking node whose payload cannot be read shows `payload: None`
/// (used where destructors are made to panic on purpose).
pub fn observe_tolerant(arena: &Arena<Payload>) -> Vec<SlotObs> {
    arena
        .as_slice()
        .iter()
        .map(|n| {
            let removed = n.is_removed();
            SlotObs {
                id: arena.get_node_id(n).expect("get_node_id of a node of this arena"),
                removed,
                links: [n.parent(), n.previous_sibling(), n.next_sibling(), n.first_child(), n.last_child()],
                payload: if removed {
                    None
                } else {
                    std::panic::catch_unwind(std::panic::AssertUnwindSafe(|| n.get().0)).ok()
                },
            }
        })
        .collect()
}

pub fn observe(arena: &Arena<Payload>) -> Vec<SlotObs> {
    arena
        .as_slice()
        .iter()
        .map(|n| {
            let removed = n.is_removed();
            SlotObs {
                id: arena
                    .get_node_id(n)
                    .expect("get_node_id of a node of this arena"),
                removed,
                links: [
                    n.parent(),
                    n.previous_sibling(),
                    n.next_sibling(),
                    n.first_child(),
                    n.last_child(),
                ],
                payload: if removed { None } else { Some(n.get().0) },
            }
        })
        .collect()
}

/// A `fmt::Write` sink that feeds two differently salted SipHash streams.
struct HashSink {
    a: std::collections::hash_map::DefaultHasher,
    b: std::collections::hash_map::DefaultHasher,
}

impl HashSink {
    fn new() -> Self {
        let mut a = std::collections::hash_map::DefaultHasher::new();
        let mut b = std::collections::hash_map::DefaultHasher::new();
        a.write_u64(0x9e37_79b9_7f4a_7c15);
        b.write_u64(0xc2b2_ae3d_27d4_eb4f);
        HashSink { a, b }
    }
    fn bytes(&mut self, s: &[u8]) {
        self.a.write(s);
        self.b.write(s);
    }
    fn finish(self) -> u128 {
        ((self.a.finish() as u128) << 64) | self.b.finish() as u128
    }
}

impl std::fmt::Write for HashSink {
    fn write_str(&mut self, s: &str) -> std::fmt::Result {
        self.bytes(s.as_bytes());
        Ok(())
    }
}

/// Hash of the derived `Debug` rendering of the arena (every private field) only.
pub fn debug_hash(arena: &Arena<Payload>) -> u128 {
    let mut h = HashSink::new();
    write!(h, "{:?}", arena).unwrap();
    h.finish()
}

/// The canonical key: derived `Debug` of the arena (every private field; passed in as its
/// hash `dbg`), the public observations α, the ids ever issued per slot, the allocation counter.
pub fn state_key(dbg: u128, obs: &[SlotObs], issued_digest: u64, allocs: usize) -> u128 {
    let mut x = std::collections::hash_map::DefaultHasher::new();
    obs.hash(&mut x);
    issued_digest.hash(&mut x);
    allocs.hash(&mut x);
    let extra = x.finish();
    let hi = hash64(&(dbg, extra, 0x51u8));
    let lo = hash64(&(extra, dbg, 0xa7u8));
    ((hi as u128) << 64) | lo as u128
}

pub fn hash64<T: Hash>(t: &T) -> u64 {
    let mut x = std::collections::hash_map::DefaultHasher::new();
    t.hash(&mut x);
    x.finish()
}

pub fn fmt_id(id: Option<NodeId>) -> String {
    match id {
        None => "-".into(),
        Some(id) => {
            let d = format!("{:?}", id);
            // NodeId { index1: 1, stamp: NodeStamp(0) } -> 1@0
            let stamp = d
                .rsplit("NodeStamp(")
                .next()
                .and_then(|s| s.split(')').next())
                .unwrap_or("?")
                .to_string();
            format!("{}@{}", usize::from(id), stamp)
        }
    }
}

pub fn fmt_obs(obs: &[SlotObs]) -> String {
    let mut s = String::new();
    for o in obs {
        let _ = write!(
            s,
            "[{}{} p={} pv={} nx={} fc={} lc={} v={}] ",
            fmt_id(Some(o.id)),
            if o.removed { " REMOVED" } else { "" },
            fmt_id(o.links[0]),
            fmt_id(o.links[1]),
            fmt_id(o.links[2]),
            fmt_id(o.links[3]),
            fmt_id(o.links[4]),
            o.payload.map(|p| p.to_string()).unwrap_or("-".into())
        );
    }
    s
}
