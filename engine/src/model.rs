//! The reference model (oracle): a deliberately boring ordered forest.
//!
//! Nodes are named by their storage slot (0-based); the real `NodeId` currently valid
//! for a slot is kept next to the model in `State::cur`, and every comparison with the
//! implementation is made on full `NodeId`s (index *and* generation).
//!
//! The model knows nothing about stamps, capacity, free-list order or error variants.

#[derive(Clone, Copy, PartialEq, Eq, Debug, Hash)]
pub enum Status {
    Live,
    /// removed and not recycled since
    Removed,
}

#[derive(Clone, PartialEq, Eq, Debug, Default)]
pub struct Model {
    pub status: Vec<Status>,
    pub parent: Vec<Option<usize>>,
    pub children: Vec<Vec<usize>>,
    /// top-level sibling chains: every parentless live node is in exactly one
    pub chains: Vec<Vec<usize>>,
    pub payload: Vec<u8>,
}

#[derive(Clone, Copy, PartialEq, Eq, Debug, Hash, PartialOrd, Ord)]
pub enum Ins {
    Append,
    Prepend,
    After,
    Before,
}

impl Ins {
    pub const ALL: [Ins; 4] = [Ins::Append, Ins::Prepend, Ins::After, Ins::Before];
    pub fn name(self) -> &'static str {
        match self {
            Ins::Append => "append",
            Ins::Prepend => "prepend",
            Ins::After => "insert_after",
            Ins::Before => "insert_before",
        }
    }
}

/// Why an insert request is impossible (several may apply).
#[derive(Clone, Copy, PartialEq, Eq, Debug, Default)]
pub struct Reasons {
    pub same: bool,
    pub removed: bool,
    pub ancestor: bool,
}

impl Reasons {
    pub fn any(self) -> bool {
        self.same || self.removed || self.ancestor
    }
}

/// The five links a live node must report, as slots.
#[derive(Clone, Copy, PartialEq, Eq, Debug, Default)]
pub struct Links {
    pub parent: Option<usize>,
    pub prev: Option<usize>,
    pub next: Option<usize>,
    pub first: Option<usize>,
    pub last: Option<usize>,
}

impl Model {
    pub fn count(&self) -> usize {
        self.status.len()
    }
    pub fn is_live(&self, x: usize) -> bool {
        x < self.count() && self.status[x] == Status::Live
    }
    pub fn live_slots(&self) -> Vec<usize> {
        (0..self.count()).filter(|&x| self.is_live(x)).collect()
    }
    pub fn removed_slots(&self) -> Vec<usize> {
        (0..self.count()).filter(|&x| !self.is_live(x)).collect()
    }
    pub fn live_payloads(&self) -> Vec<u8> {
        self.live_slots().iter().map(|&x| self.payload[x]).collect()
    }
    /// smallest payload values (ignoring the write bit) not carried by a live node
    pub fn mex(&self, k: usize) -> Vec<u8> {
        let used: Vec<u8> = self
            .live_payloads()
            .iter()
            .map(|p| p & !crate::payload::WRITE_BIT)
            .collect();
        (0u8..=127).filter(|v| !used.contains(v)).take(k).collect()
    }

    /// the ordered sibling list x is a member of
    pub fn list_of(&self, x: usize) -> &Vec<usize> {
        match self.parent[x] {
            Some(p) => &self.children[p],
            None => self
                .chains
                .iter()
                .find(|c| c.contains(&x))
                .expect("model: parentless live node is in no chain"),
        }
    }

    pub fn links(&self, x: usize) -> Links {
        let list = self.list_of(x);
        let pos = list.iter().position(|&y| y == x).unwrap();
        Links {
            parent: self.parent[x],
            prev: if pos > 0 { Some(list[pos - 1]) } else { None },
            next: list.get(pos + 1).copied(),
            first: self.children[x].first().copied(),
            last: self.children[x].last().copied(),
        }
    }

    /// proper ancestors of x, nearest first
    pub fn ancestors(&self, x: usize) -> Vec<usize> {
        let mut v = Vec::new();
        let mut c = self.parent[x];
        while let Some(p) = c {
            v.push(p);
            c = self.parent[p];
        }
        v
    }

    /// pre-order of the subtree rooted at x (x first)
    pub fn subtree(&self, x: usize) -> Vec<usize> {
        let mut out = vec![x];
        for &c in &self.children[x] {
            out.extend(self.subtree(c));
        }
        out
    }

    fn take_out(&mut self, x: usize) {
        match self.parent[x] {
            Some(p) => self.children[p].retain(|&y| y != x),
            None => {
                let i = self.chains.iter().position(|c| c.contains(&x)).unwrap();
                self.chains[i].retain(|&y| y != x);
                if self.chains[i].is_empty() {
                    self.chains.remove(i);
                }
            }
        }
        self.parent[x] = None;
    }

    fn list_of_mut(&mut self, x: usize) -> &mut Vec<usize> {
        match self.parent[x] {
            Some(p) => &mut self.children[p],
            None => self.chains.iter_mut().find(|c| c.contains(&x)).unwrap(),
        }
    }

    /// Allocate: `slot` is where the implementation put the node (free slot or count()).
    pub fn alloc(&mut self, slot: usize, payload: u8) {
        if slot == self.count() {
            self.status.push(Status::Live);
            self.parent.push(None);
            self.children.push(Vec::new());
            self.payload.push(payload);
        } else {
            self.status[slot] = Status::Live;
            self.parent[slot] = None;
            self.children[slot].clear();
            self.payload[slot] = payload;
        }
        self.chains.push(vec![slot]);
    }

    /// Is `ins(a, b)` ("put b relative to a") impossible, and why?
    pub fn impossible(&self, ins: Ins, a: usize, b: usize) -> Reasons {
        let mut r = Reasons::default();
        r.same = a == b;
        r.removed = !self.is_live(a) || !self.is_live(b);
        if !r.removed && !r.same {
            // b may not be an ancestor-or-self of the place it would go to.
            let anc = self.ancestors(a);
            r.ancestor = match ins {
                // place = child list of a: ancestors-or-self of a; self excluded above
                Ins::Append | Ins::Prepend => anc.contains(&b),
                // place = child list of parent(a): ancestors-or-self of parent(a)
                Ins::After | Ins::Before => anc.contains(&b),
            };
        }
        r
    }

    /// Perform a possible insert.
    pub fn insert(&mut self, ins: Ins, a: usize, b: usize) {
        debug_assert!(!self.impossible(ins, a, b).any());
        self.take_out(b);
        match ins {
            Ins::Append => {
                self.children[a].push(b);
                self.parent[b] = Some(a);
            }
            Ins::Prepend => {
                self.children[a].insert(0, b);
                self.parent[b] = Some(a);
            }
            Ins::After | Ins::Before => {
                let p = self.parent[a];
                let list = self.list_of_mut(a);
                let pos = list.iter().position(|&y| y == a).unwrap();
                list.insert(if ins == Ins::After { pos + 1 } else { pos }, b);
                self.parent[b] = p;
            }
        }
    }

    pub fn detach(&mut self, x: usize) {
        self.take_out(x);
        self.chains.push(vec![x]);
    }

    /// remove(x): x's children take x's place
    pub fn remove(&mut self, x: usize) {
        let kids = std::mem::take(&mut self.children[x]);
        let p = self.parent[x];
        for &k in &kids {
            self.parent[k] = p;
        }
        let list = self.list_of_mut(x);
        let pos = list.iter().position(|&y| y == x).unwrap();
        list.splice(pos..=pos, kids.iter().copied());
        if p.is_none() {
            self.chains.retain(|c| !c.is_empty());
        }
        self.parent[x] = None;
        self.status[x] = Status::Removed;
    }

    /// remove_subtree(x): returns the removed slots
    pub fn remove_subtree(&mut self, x: usize) -> Vec<usize> {
        let sub = self.subtree(x);
        self.take_out(x);
        for &y in &sub {
            self.status[y] = Status::Removed;
            self.parent[y] = None;
            self.children[y].clear();
        }
        sub
    }

    pub fn clear(&mut self) {
        *self = Model::default();
    }

    /// internal sanity of the model itself (machinery self-check)
    pub fn check_self(&self) -> Result<(), String> {
        let n = self.count();
        let mut seen = vec![0u32; n];
        for c in &self.chains {
            if c.is_empty() {
                return Err("empty chain".into());
            }
            for &x in c {
                if !self.is_live(x) || self.parent[x].is_some() {
                    return Err(format!("chain member {x} not a live root"));
                }
                seen[x] += 1;
            }
        }
        for p in 0..n {
            if !self.is_live(p) && !self.children[p].is_empty() {
                return Err(format!("removed {p} has children"));
            }
            for &x in &self.children[p] {
                if !self.is_live(x) || self.parent[x] != Some(p) {
                    return Err(format!("child {x} of {p} inconsistent"));
                }
                seen[x] += 1;
            }
        }
        for x in 0..n {
            if self.is_live(x) && seen[x] != 1 {
                return Err(format!("live {x} is in {} lists", seen[x]));
            }
            if self.is_live(x) && self.ancestors_bounded(x).is_none() {
                return Err(format!("cycle above {x}"));
            }
        }
        Ok(())
    }

    fn ancestors_bounded(&self, x: usize) -> Option<usize> {
        let mut c = self.parent[x];
        let mut k = 0;
        while let Some(p) = c {
            k += 1;
            if k > self.count() {
                return None;
            }
            c = self.parent[p];
        }
        Some(k)
    }

    /// Relation of b to a, used for coverage classes and known-finding signatures.
    pub fn relation(&self, a: usize, b: usize) -> &'static str {
        let (la, lb) = (self.is_live(a), self.is_live(b));
        if a == b {
            return if la { "self" } else { "self-removed" };
        }
        match (la, lb) {
            (false, false) => return "both-removed",
            (false, true) => return "target-removed",
            (true, false) => return "arg-removed",
            _ => {}
        }
        let anc_a = self.ancestors(a);
        let anc_b = self.ancestors(b);
        if anc_a.first() == Some(&b) {
            return "arg-is-parent";
        }
        if anc_a.contains(&b) {
            return "arg-is-ancestor2+";
        }
        if anc_b.first() == Some(&a) {
            let l = &self.children[a];
            return if l.len() == 1 {
                "arg-is-only-child"
            } else if l.first() == Some(&b) {
                "arg-is-first-child"
            } else if l.last() == Some(&b) {
                "arg-is-last-child"
            } else {
                "arg-is-middle-child"
            };
        }
        if anc_b.contains(&a) {
            return "arg-is-descendant2+";
        }
        let list = self.list_of(a);
        if let Some(pb) = list.iter().position(|&y| y == b) {
            let pa = list.iter().position(|&y| y == a).unwrap();
            let top = self.parent[a].is_none();
            return match (pb as isize - pa as isize, top) {
                (1, false) => "arg-is-next-sibling",
                (-1, false) => "arg-is-prev-sibling",
                (d, false) if d > 0 => "arg-is-later-sibling",
                (_, false) => "arg-is-earlier-sibling",
                (1, true) => "arg-is-next-chainmate",
                (-1, true) => "arg-is-prev-chainmate",
                (d, true) if d > 0 => "arg-is-later-chainmate",
                (_, true) => "arg-is-earlier-chainmate",
            };
        }
        let root = |x: usize, anc: &Vec<usize>| *anc.last().unwrap_or(&x);
        let (ra, rb) = (root(a, &anc_a), root(b, &anc_b));
        if ra == rb {
            return "same-tree-other-branch";
        }
        if self.list_of(ra).contains(&rb) {
            return "tree-of-chainmate";
        }
        "other-tree"
    }

    /// Position class of a single live node (coverage / signatures).
    pub fn position(&self, x: usize) -> &'static str {
        if !self.is_live(x) {
            return "removed";
        }
        let list = self.list_of(x);
        let pos = list.iter().position(|&y| y == x).unwrap();
        let kids = !self.children[x].is_empty();
        match (self.parent[x].is_some(), list.len(), pos, kids) {
            (false, 1, _, false) => "lone-root-leaf",
            (false, 1, _, true) => "lone-root-with-children",
            (false, _, _, false) => "chain-member-leaf",
            (false, _, _, true) => "chain-member-with-children",
            (true, 1, _, false) => "only-child-leaf",
            (true, 1, _, true) => "only-child-inner",
            (true, n, p, false) if p == 0 || p == n - 1 => "end-child-leaf",
            (true, n, p, true) if p == 0 || p == n - 1 => "end-child-inner",
            (true, _, _, false) => "middle-child-leaf",
            (true, _, _, true) => "middle-child-inner",
        }
    }
}
