//! E6 (C18): all interleavings of concurrent readers' steps over one shared `&Arena`.
use crate::obs;
use crate::payload::Payload;
use crate::state::State;
use indextree::{Arena, NodeEdge, NodeId};
use std::marker::PhantomData;

// ---- compile-time facts, evaluated to booleans (never compile errors) -------------------
pub struct Probe<T: ?Sized>(PhantomData<T>);
pub trait NotSend {
    const SEND: bool = false;
}
impl<T: ?Sized> NotSend for Probe<T> {}
impl<T: ?Sized + Send> Probe<T> {
    pub const SEND: bool = true;
}
pub trait NotSync {
    const SYNC: bool = false;
}
impl<T: ?Sized> NotSync for Probe<T> {}
impl<T: ?Sized + Sync> Probe<T> {
    pub const SYNC: bool = true;
}

macro_rules! probe {
    ($v:ident, $name:expr, $t:ty, $send:expr, $sync:expr) => {
        $v.push(($name.to_string(), <Probe<$t>>::SEND, <Probe<$t>>::SYNC, $send, $sync));
    };
}

/// (type, is Send, is Sync, expected Send, expected Sync)
#[allow(deprecated)]
pub fn auto_trait_facts() -> Vec<(String, bool, bool, bool, bool)> {
    use indextree::*;
    use std::cell::Cell;
    use std::rc::Rc;
    let mut v = Vec::new();
    probe!(v, "NodeId", NodeId, true, true);
    probe!(v, "NodeEdge", NodeEdge, true, true);
    probe!(v, "NodeError", NodeError, true, true);
    probe!(v, "Arena<u32>", Arena<u32>, true, true);
    probe!(v, "Arena<String>", Arena<String>, true, true);
    probe!(v, "Node<u32>", Node<u32>, true, true);
    probe!(v, "Node<String>", Node<String>, true, true);
    probe!(v, "Arena<Rc<()>>", Arena<Rc<()>>, false, false);
    probe!(v, "Node<Rc<()>>", Node<Rc<()>>, false, false);
    probe!(v, "Arena<Cell<u8>>", Arena<Cell<u8>>, true, false);
    probe!(v, "Node<Cell<u8>>", Node<Cell<u8>>, true, false);
    probe!(v, "Ancestors<String>", Ancestors<'static, String>, true, true);
    probe!(v, "Predecessors<String>", Predecessors<'static, String>, true, true);
    probe!(v, "PrecedingSiblings<String>", PrecedingSiblings<'static, String>, true, true);
    probe!(v, "FollowingSiblings<String>", FollowingSiblings<'static, String>, true, true);
    probe!(v, "Children<String>", Children<'static, String>, true, true);
    probe!(v, "ReverseChildren<String>", ReverseChildren<'static, String>, true, true);
    probe!(v, "Descendants<String>", Descendants<'static, String>, true, true);
    probe!(v, "Traverse<String>", Traverse<'static, String>, true, true);
    probe!(v, "ReverseTraverse<String>", ReverseTraverse<'static, String>, true, true);
    probe!(v, "DebugPrettyPrint<String>", DebugPrettyPrint<'static, String>, true, true);
    // par_iter() exists for every T: Sync — also for one that is not Send
    #[cfg(feature = "it-par")]
    {
        struct Pinned(#[allow(dead_code)] PhantomData<*const ()>);
        unsafe impl Sync for Pinned {}
        trait Fallback {
            fn par_iter(&self) -> Option<()> {
                None
            }
        }
        impl<T> Fallback for Arena<T> {}
        trait Avail {
            fn avail(self) -> bool;
        }
        impl Avail for Option<()> {
            fn avail(self) -> bool {
                false
            }
        }
        impl<'a, T: Sync> Avail for rayon::slice::Iter<'a, Node<T>> {
            fn avail(self) -> bool {
                true
            }
        }
        let a: Arena<Pinned> = Arena::new();
        // inherent Arena::<T: Sync>::par_iter wins over the fallback trait method when it applies
        let has = a.par_iter().avail();
        v.push(("Arena<Sync+!Send>::par_iter() available".to_string(), has, has, true, true));
    }
    // an iterator over an arena of !Sync payloads must not be Send (it holds &Arena<T>)
    probe!(v, "Children<Cell<u8>>", Children<'static, Cell<u8>>, false, false);
    probe!(v, "Traverse<Cell<u8>>", Traverse<'static, Cell<u8>>, false, false);
    v
}

// ---- source scan ------------------------------------------------------------------------------
/// Strip comments, string and char literals; returns identifier-ish tokens with line numbers.
pub fn tokens(src: &str) -> Vec<(usize, String)> {
    let b: Vec<char> = src.chars().collect();
    let mut out = Vec::new();
    let mut i = 0;
    let mut line = 1;
    while i < b.len() {
        let c = b[i];
        if c == '\n' {
            line += 1;
            i += 1;
        } else if c == '/' && i + 1 < b.len() && b[i + 1] == '/' {
            while i < b.len() && b[i] != '\n' {
                i += 1;
            }
        } else if c == '/' && i + 1 < b.len() && b[i + 1] == '*' {
            let mut depth = 1;
            i += 2;
            while i < b.len() && depth > 0 {
                if b[i] == '\n' {
                    line += 1;
                }
                if b[i] == '/' && i + 1 < b.len() && b[i + 1] == '*' {
                    depth += 1;
                    i += 1;
                } else if b[i] == '*' && i + 1 < b.len() && b[i + 1] == '/' {
                    depth -= 1;
                    i += 1;
                }
                i += 1;
            }
        } else if c == '"' {
            i += 1;
            while i < b.len() && b[i] != '"' {
                if b[i] == '\\' {
                    i += 1;
                }
                if i < b.len() && b[i] == '\n' {
                    line += 1;
                }
                i += 1;
            }
            i += 1;
        } else if c == 'r' && i + 1 < b.len() && (b[i + 1] == '"' || b[i + 1] == '#') && (i == 0 || !(b[i - 1].is_alphanumeric() || b[i - 1] == '_')) {
            // raw string r#"..."#
            let mut j = i + 1;
            let mut hashes = 0;
            while j < b.len() && b[j] == '#' {
                hashes += 1;
                j += 1;
            }
            if j < b.len() && b[j] == '"' {
                j += 1;
                'outer: while j < b.len() {
                    if b[j] == '\n' {
                        line += 1;
                    }
                    if b[j] == '"' {
                        let mut k = 0;
                        while k < hashes && j + 1 + k < b.len() && b[j + 1 + k] == '#' {
                            k += 1;
                        }
                        if k == hashes {
                            j += 1 + hashes;
                            break 'outer;
                        }
                    }
                    j += 1;
                }
                i = j;
            } else {
                // identifier starting with r
                let s = i;
                while i < b.len() && (b[i].is_alphanumeric() || b[i] == '_') {
                    i += 1;
                }
                out.push((line, b[s..i].iter().collect()));
            }
        } else if c == '\'' {
            // lifetime or char literal
            if i + 2 < b.len() && b[i + 1] == '\\' {
                i += 2;
                while i < b.len() && b[i] != '\'' {
                    i += 1;
                }
                i += 1;
            } else if i + 2 < b.len() && b[i + 2] == '\'' {
                i += 3;
            } else {
                // lifetime: skip the name so that 'static is not reported as `static`
                i += 1;
                while i < b.len() && (b[i].is_alphanumeric() || b[i] == '_') {
                    i += 1;
                }
            }
        } else if c.is_alphabetic() || c == '_' {
            let s = i;
            while i < b.len() && (b[i].is_alphanumeric() || b[i] == '_') {
                i += 1;
            }
            out.push((line, b[s..i].iter().collect()));
        } else {
            i += 1;
        }
    }
    out
}

pub struct ScanResult {
    pub files: usize,
    pub tokens: usize,
    pub hits: Vec<String>,
    pub forbid_unsafe: bool,
}

pub fn scan_sources(dir: &str) -> Result<ScanResult, String> {
    let mut res = ScanResult { files: 0, tokens: 0, hits: Vec::new(), forbid_unsafe: false };
    let mut stack = vec![std::path::PathBuf::from(dir)];
    while let Some(d) = stack.pop() {
        for e in std::fs::read_dir(&d).map_err(|e| format!("{}: {e}", d.display()))? {
            let p = e.map_err(|e| e.to_string())?.path();
            if p.is_dir() {
                stack.push(p);
            } else if p.extension().map(|x| x == "rs").unwrap_or(false) {
                let src = std::fs::read_to_string(&p).map_err(|e| e.to_string())?;
                res.files += 1;
                if p.file_name().map(|n| n == "lib.rs").unwrap_or(false) {
                    let squeezed: String = src.chars().filter(|c| !c.is_whitespace()).collect();
                    if squeezed.contains("#![forbid(unsafe_code)]") {
                        res.forbid_unsafe = true;
                    }
                }
                let toks = tokens(&src);
                res.tokens += toks.len();
                for (k, (line, t)) in toks.iter().enumerate() {
                    let bad = matches!(
                        t.as_str(),
                        "unsafe" | "static" | "Cell" | "RefCell" | "UnsafeCell" | "OnceCell" | "OnceLock" | "LazyLock" | "LazyCell"
                            | "Lazy" | "Mutex" | "RwLock" | "Once" | "thread_local" | "lazy_static" | "SyncUnsafeCell" | "Condvar"
                            | "transmute" | "asm" | "global_asm" | "extern"
                    ) || t.starts_with("Atomic");
                    // `extern crate alloc;` is the one legitimate extern
                    let ok_extern = t == "extern" && toks.get(k + 1).map(|x| x.1 == "crate").unwrap_or(false);
                    if bad && !ok_extern {
                        res.hits.push(format!("{}:{}: `{}`", p.display(), line, t));
                    }
                }
            }
        }
    }
    Ok(res)
}

// ---- reader scripts -----------------------------------------------------------------------------
pub const SCRIPT_KINDS: usize = 15;
pub const SCRIPT_NAMES: [&str; SCRIPT_KINDS] = [
    "ancestors", "predecessors", "preceding_siblings", "following_siblings", "children", "reverse_children",
    "descendants", "traverse", "reverse_traverse", "links", "next_traverse-steps", "get+payload", "children-from-both-ends",
    "pretty-print", "debug-rendering",
];

fn h<T: std::hash::Hash>(t: &T) -> u64 {
    obs::hash64(t)
}

#[allow(deprecated)]
pub fn make_reader<'a>(arena: &'a Arena<Payload>, kind: usize, id: NodeId) -> Box<dyn FnMut() -> u64 + 'a> {
    match kind {
        0 => { let mut it = id.ancestors(arena); Box::new(move || h(&it.next())) }
        1 => { let mut it = id.predecessors(arena); Box::new(move || h(&it.next())) }
        2 => { let mut it = id.preceding_siblings(arena); Box::new(move || h(&it.next())) }
        3 => { let mut it = id.following_siblings(arena); Box::new(move || h(&it.next())) }
        4 => { let mut it = id.children(arena); Box::new(move || h(&it.next())) }
        5 => { let mut it = id.reverse_children(arena); Box::new(move || h(&it.next())) }
        6 => { let mut it = id.descendants(arena); Box::new(move || h(&it.next())) }
        7 => { let mut it = id.traverse(arena); Box::new(move || h(&it.next())) }
        8 => { let mut it = id.reverse_traverse(arena); Box::new(move || h(&it.next())) }
        9 => {
            let mut k = 0usize;
            Box::new(move || {
                let n = &arena[id];
                let v = match k % 6 {
                    0 => h(&n.parent()),
                    1 => h(&n.previous_sibling()),
                    2 => h(&n.next_sibling()),
                    3 => h(&n.first_child()),
                    4 => h(&n.last_child()),
                    _ => h(&(n.is_removed(), id.is_removed(arena))),
                };
                k += 1;
                v
            })
        }
        10 => {
            let mut e = Some(NodeEdge::Start(id));
            Box::new(move || {
                e = e.and_then(|x| x.next_traverse(arena));
                h(&e)
            })
        }
        11 => {
            let mut k = 0usize;
            Box::new(move || {
                k += 1;
                match k % 3 {
                    0 => h(&arena.get(id).map(|n| n.get().0)),
                    1 => h(&arena.get_node_id(&arena[id])),
                    _ => h(&(arena.count(), arena.get_node_id_at(std::num::NonZeroUsize::new(usize::from(id)).unwrap()))),
                }
            })
        }
        13 => {
            // the pretty printer of the subtree, the four modes in turn
            let mut k = 0usize;
            Box::new(move || {
                let p = id.debug_pretty_print(arena);
                let s = match k % 4 {
                    0 => format!("{}", p),
                    1 => format!("{:#}", p),
                    2 => format!("{:?}", p),
                    _ => format!("{:#?}", p),
                };
                k += 1;
                h(&s)
            })
        }
        14 => {
            // the derived renderings of the arena, the node and the id
            let mut k = 0usize;
            Box::new(move || {
                let s = match k % 4 {
                    0 => format!("{:?}", arena),
                    1 => format!("{:?} {}", arena.get(id), id),
                    2 => format!("{:#?}", arena),
                    _ => format!("{:?}", id),
                };
                k += 1;
                h(&s)
            })
        }
        _ => {
            let mut it = id.children(arena);
            let mut k = 0usize;
            Box::new(move || {
                k += 1;
                if k % 2 == 1 { h(&it.next()) } else { h(&it.next_back()) }
            })
        }
    }
}

/// Every script from every live node run while its thread is unwinding from a panic (inside the
/// destructor of a guard), on the calling thread and on a spawned one next to healthy readers:
/// what a reader observes must not depend on the state of its thread.
pub fn unwinding_readers(s: &State, steps: usize) -> Option<String> {
    let arena = &s.arena;
    let live: Vec<NodeId> = s.model.live_slots().iter().map(|&x| s.cur[x]).collect();
    let mut scripts: Vec<(usize, NodeId)> = Vec::new();
    for &id in &live {
        for kind in 0..SCRIPT_KINDS {
            scripts.push((kind, id));
        }
    }
    let solos: Vec<Vec<u64>> = scripts.iter().map(|&(kind, id)| solo(arena, kind, id, steps)).collect();
    struct Guard<'a> {
        arena: &'a Arena<Payload>,
        scripts: &'a [(usize, NodeId)],
        steps: usize,
        out: &'a std::sync::Mutex<Vec<Vec<u64>>>,
        panicking: &'a std::sync::atomic::AtomicBool,
    }
    impl Drop for Guard<'_> {
        fn drop(&mut self) {
            self.panicking.store(std::thread::panicking(), std::sync::atomic::Ordering::SeqCst);
            let mut v = Vec::new();
            for &(kind, id) in self.scripts {
                // (a reader that panics here must not escape the destructor: that would abort the process)
                let mut r = make_reader(self.arena, kind, id);
                v.push((0..self.steps).map(|k| std::panic::catch_unwind(std::panic::AssertUnwindSafe(|| r())).unwrap_or(0xdead_0000 + k as u64)).collect());
            }
            *self.out.lock().unwrap() = v;
        }
    }
    let run = |whence: &str| -> Option<String> {
        let out = std::sync::Mutex::new(Vec::new());
        let was = std::sync::atomic::AtomicBool::new(false);
        let _ = std::panic::catch_unwind(std::panic::AssertUnwindSafe(|| {
            let _g = Guard { arena, scripts: &scripts, steps, out: &out, panicking: &was };
            std::panic::resume_unwind(Box::new("unwinding on purpose"));
        }));
        if !was.load(std::sync::atomic::Ordering::SeqCst) {
            return Some("machinery: the guard did not run during unwinding".into());
        }
        let got = out.into_inner().unwrap();
        for (i, g) in got.iter().enumerate() {
            if *g != solos[i] {
                return Some(format!("script {} from {} run {whence} while the thread unwinds from a panic observes something else than in a healthy thread", SCRIPT_NAMES[scripts[i].0], obs::fmt_id(Some(scripts[i].1))));
            }
        }
        if got.len() != solos.len() {
            return Some("machinery: not every script ran in the guard".into());
        }
        None
    };
    if let Some(m) = run("on the calling thread") {
        return Some(m);
    }
    // on a spawned thread, with a healthy reader thread running the same scripts next to it
    let mut res = None;
    std::thread::scope(|sc| {
        let a = sc.spawn(|| run("on a spawned thread"));
        let b = sc.spawn(|| {
            for (i, &(kind, id)) in scripts.iter().enumerate() {
                if solo(arena, kind, id, steps) != solos[i] {
                    return Some(format!("script {} next to an unwinding thread differs from its solo run", SCRIPT_NAMES[kind]));
                }
            }
            None
        });
        res = a.join().ok().flatten().or(b.join().ok().flatten());
    });
    res
}

pub fn solo(arena: &Arena<Payload>, kind: usize, id: NodeId, steps: usize) -> Vec<u64> {
    let mut r = make_reader(arena, kind, id);
    (0..steps)
        .map(|k| std::panic::catch_unwind(std::panic::AssertUnwindSafe(|| r())).unwrap_or(0xdead_0000 + k as u64))
        .collect()
}

#[derive(Clone, Debug)]
pub struct ReaderMismatch {
    pub readers: Vec<(usize, NodeId)>,
    pub schedule: Vec<usize>,
    pub which: usize,
}

/// all interleavings (as sequences of reader indices) of `k` readers taking `steps` steps each
pub fn interleavings(k: usize, steps: usize) -> Vec<Vec<usize>> {
    fn rec(left: &mut Vec<usize>, cur: &mut Vec<usize>, out: &mut Vec<Vec<usize>>) {
        if left.iter().all(|x| *x == 0) {
            out.push(cur.clone());
            return;
        }
        for r in 0..left.len() {
            if left[r] > 0 {
                left[r] -= 1;
                cur.push(r);
                rec(left, cur, out);
                cur.pop();
                left[r] += 1;
            }
        }
    }
    let mut out = Vec::new();
    rec(&mut vec![steps; k], &mut Vec::new(), &mut out);
    out
}

pub struct InterleaveStats {
    pub groups: u64,
    pub schedules: u64,
    pub steps: u64,
}

/// Run every group of `k` scripts under every interleaving; compare with the solo runs.
pub fn check_state(
    s: &State,
    k: usize,
    steps: usize,
    scheds: &[Vec<usize>],
    stats: &mut InterleaveStats,
) -> Option<ReaderMismatch> {
    let arena = &s.arena;
    let live: Vec<NodeId> = s.model.live_slots().iter().map(|&x| s.cur[x]).collect();
    let mut scripts: Vec<(usize, NodeId)> = Vec::new();
    for &id in &live {
        for kind in 0..SCRIPT_KINDS {
            scripts.push((kind, id));
        }
    }
    let solos: Vec<Vec<u64>> = scripts.iter().map(|&(kind, id)| solo(arena, kind, id, steps)).collect();
    let before = obs::debug_hash(arena);
    let n = scripts.len();
    if n == 0 {
        return None;
    }
    let mut group = vec![0usize; k];
    // unordered groups with repetition: the same script twice is the sharpest collision
    loop {
        stats.groups += 1;
        for sched in scheds {
            stats.schedules += 1;
            let mut readers: Vec<Box<dyn FnMut() -> u64>> = group.iter().map(|&g| make_reader(arena, scripts[g].0, scripts[g].1)).collect();
            let mut pos = vec![0usize; k];
            for &r in sched {
                stats.steps += 1;
                // a reader that panics (e.g. a bogus "cycle" guard tripping) observes something else too
                let v = match std::panic::catch_unwind(std::panic::AssertUnwindSafe(|| readers[r]())) {
                    Ok(v) => v,
                    Err(_) => !solos[group[r]][pos[r]],
                };
                if v != solos[group[r]][pos[r]] {
                    return Some(ReaderMismatch {
                        readers: group.iter().map(|&g| scripts[g]).collect(),
                        schedule: sched.clone(),
                        which: r,
                    });
                }
                pos[r] += 1;
            }
        }
        // next non-decreasing group
        let mut i = k;
        loop {
            if i == 0 {
                if obs::debug_hash(arena) != before {
                    return Some(ReaderMismatch { readers: vec![], schedule: vec![], which: usize::MAX });
                }
                return None;
            }
            i -= 1;
            if group[i] + 1 < n {
                group[i] += 1;
                let v = group[i];
                for j in i + 1..k {
                    group[j] = v;
                }
                break;
            }
        }
        if n == 0 {
            return None;
        }
    }
}

/// The same reader bodies as real, free-running OS threads (sampling of real schedules; a
/// complement to the exhaustive interleaver, not the deciding step).
pub fn free_running(s: &State, threads: usize, rounds: usize) -> Option<String> {
    let arena = &s.arena;
    let live: Vec<NodeId> = s.model.live_slots().iter().map(|&x| s.cur[x]).collect();
    if live.is_empty() {
        return None;
    }
    let mut scripts: Vec<(usize, NodeId)> = Vec::new();
    for &id in &live {
        for kind in 0..SCRIPT_KINDS {
            scripts.push((kind, id));
        }
    }
    let solos: Vec<Vec<u64>> = scripts.iter().map(|&(kind, id)| solo(arena, kind, id, 6)).collect();
    let bad = std::sync::Mutex::new(None);
    std::thread::scope(|sc| {
        for t in 0..threads {
            let scripts = &scripts;
            let solos = &solos;
            let bad = &bad;
            sc.spawn(move || {
                for r in 0..rounds {
                    let i = (t * 7 + r * 13) % scripts.len();
                    let got = solo(arena, scripts[i].0, scripts[i].1, 6);
                    if got != solos[i] {
                        *bad.lock().unwrap() = Some(format!("thread {t} round {r}: script {} from {:?} differs from its solo run", SCRIPT_NAMES[scripts[i].0], scripts[i].1));
                        return;
                    }
                }
            });
        }
    });
    bad.into_inner().unwrap()
}

#[cfg(feature = "threads")]
pub fn shuttle_dfs(s: &State, k: usize, steps: usize) -> Result<u64, String> {
    use std::sync::atomic::{AtomicU64, Ordering};
    use std::sync::Arc;
    let arena = Arc::new(s.arena.clone());
    let live: Vec<NodeId> = s.model.live_slots().iter().map(|&x| s.cur[x]).collect();
    if live.is_empty() {
        return Ok(0);
    }
    // the k readers: traverse / descendants / children-from-both-ends from the first live node
    let picks: Vec<(usize, NodeId)> = (0..k).map(|i| ([7usize, 6, 12, 3][i % 4], live[i % live.len()])).collect();
    let solos: Vec<Vec<u64>> = picks.iter().map(|&(kind, id)| solo(&arena, kind, id, steps)).collect();
    let count = Arc::new(AtomicU64::new(0));
    let failed = Arc::new(std::sync::Mutex::new(None::<String>));
    let (c2, f2) = (count.clone(), failed.clone());
    let body = move || {
        c2.fetch_add(1, Ordering::Relaxed);
        let mut hs = Vec::new();
        for (i, &(kind, id)) in picks.iter().enumerate() {
            let arena = arena.clone();
            let want = solos[i].clone();
            let f3 = f2.clone();
            hs.push(shuttle::thread::spawn(move || {
                let mut r = make_reader(&arena, kind, id);
                for st in 0..want.len() {
                    let v = r();
                    if v != want[st] {
                        *f3.lock().unwrap() = Some(format!("reader {i} ({}) step {st} differs from its solo run", SCRIPT_NAMES[kind]));
                    }
                    shuttle::thread::yield_now();
                }
            }));
        }
        for hnd in hs {
            hnd.join().unwrap();
        }
    };
    let r = std::panic::catch_unwind(std::panic::AssertUnwindSafe(|| shuttle::check_dfs(body, None)));
    if let Some(m) = failed.lock().unwrap().clone() {
        return Err(m);
    }
    match r {
        Ok(()) => Ok(count.load(Ordering::Relaxed)),
        Err(e) => Err(format!("shuttle run panicked: {}", crate::ops::panic_msg(e))),
    }
}
