//! A small non-self-describing serde data format (a flat token stream), used as the second
//! format of the C16 round trip: it drives `visit_seq` for structs and numeric variant
//! indices for enums, where serde_json drives `visit_map` and variant names.
#![cfg(feature = "it-deser")]
use serde::de::{self, DeserializeSeed, EnumAccess, SeqAccess, VariantAccess, Visitor};
use serde::ser::{self, Serialize};
use serde::Deserialize;
use std::fmt;

#[derive(Clone, Debug, PartialEq)]
pub enum Tok {
    Bool(bool),
    I(i64),
    U(u64),
    Str(String),
    Unit,
    None,
    Some,
    Seq(usize),
    Map(usize),
    Big(u128),
    Variant(u32),
}

#[derive(Debug)]
pub struct Error(pub String);
impl fmt::Display for Error {
    fn fmt(&self, f: &mut fmt::Formatter<'_>) -> fmt::Result {
        f.write_str(&self.0)
    }
}
impl std::error::Error for Error {}
impl ser::Error for Error {
    fn custom<T: fmt::Display>(m: T) -> Self {
        Error(m.to_string())
    }
}
impl de::Error for Error {
    fn custom<T: fmt::Display>(m: T) -> Self {
        Error(m.to_string())
    }
}

pub struct Ser {
    pub out: Vec<Tok>,
    /// what the format answers to `is_human_readable()` (types may choose a compact form when false)
    pub human_readable: bool,
}

macro_rules! ser_int {
    ($name:ident, $t:ty, $tok:ident, $as:ty) => {
        fn $name(self, v: $t) -> Result<(), Error> {
            self.out.push(Tok::$tok(v as $as));
            Ok(())
        }
    };
}

impl<'a> ser::Serializer for &'a mut Ser {
    type Ok = ();
    type Error = Error;
    type SerializeSeq = Self;
    type SerializeTuple = Self;
    type SerializeTupleStruct = Self;
    type SerializeTupleVariant = Self;
    type SerializeMap = Self;
    type SerializeStruct = Self;
    type SerializeStructVariant = Self;

    fn is_human_readable(&self) -> bool {
        self.human_readable
    }
    fn serialize_bool(self, v: bool) -> Result<(), Error> {
        self.out.push(Tok::Bool(v));
        Ok(())
    }
    ser_int!(serialize_i8, i8, I, i64);
    ser_int!(serialize_i16, i16, I, i64);
    ser_int!(serialize_i32, i32, I, i64);
    ser_int!(serialize_i64, i64, I, i64);
    ser_int!(serialize_u8, u8, U, u64);
    ser_int!(serialize_u16, u16, U, u64);
    ser_int!(serialize_u32, u32, U, u64);
    ser_int!(serialize_u64, u64, U, u64);
    fn serialize_f32(self, _: f32) -> Result<(), Error> {
        Err(Error("f32 unsupported".into()))
    }
    fn serialize_f64(self, _: f64) -> Result<(), Error> {
        Err(Error("f64 unsupported".into()))
    }
    fn serialize_char(self, v: char) -> Result<(), Error> {
        self.out.push(Tok::Str(v.to_string()));
        Ok(())
    }
    fn serialize_str(self, v: &str) -> Result<(), Error> {
        self.out.push(Tok::Str(v.to_string()));
        Ok(())
    }
    fn serialize_bytes(self, v: &[u8]) -> Result<(), Error> {
        self.out.push(Tok::Seq(v.len()));
        for b in v {
            self.out.push(Tok::U(*b as u64));
        }
        Ok(())
    }
    fn serialize_none(self) -> Result<(), Error> {
        self.out.push(Tok::None);
        Ok(())
    }
    fn serialize_some<T: ?Sized + Serialize>(self, v: &T) -> Result<(), Error> {
        self.out.push(Tok::Some);
        v.serialize(self)
    }
    fn serialize_unit(self) -> Result<(), Error> {
        self.out.push(Tok::Unit);
        Ok(())
    }
    fn serialize_unit_struct(self, _: &'static str) -> Result<(), Error> {
        self.out.push(Tok::Unit);
        Ok(())
    }
    fn serialize_unit_variant(self, _: &'static str, idx: u32, _: &'static str) -> Result<(), Error> {
        self.out.push(Tok::Variant(idx));
        Ok(())
    }
    fn serialize_newtype_struct<T: ?Sized + Serialize>(self, _: &'static str, v: &T) -> Result<(), Error> {
        v.serialize(self)
    }
    fn serialize_newtype_variant<T: ?Sized + Serialize>(
        self,
        _: &'static str,
        idx: u32,
        _: &'static str,
        v: &T,
    ) -> Result<(), Error> {
        self.out.push(Tok::Variant(idx));
        v.serialize(self)
    }
    fn serialize_seq(self, len: Option<usize>) -> Result<Self, Error> {
        let len = len.ok_or_else(|| Error("sequence of unknown length".into()))?;
        self.out.push(Tok::Seq(len));
        Ok(self)
    }
    fn serialize_tuple(self, _: usize) -> Result<Self, Error> {
        Ok(self)
    }
    fn serialize_tuple_struct(self, _: &'static str, _: usize) -> Result<Self, Error> {
        Ok(self)
    }
    fn serialize_tuple_variant(self, _: &'static str, idx: u32, _: &'static str, _: usize) -> Result<Self, Error> {
        self.out.push(Tok::Variant(idx));
        Ok(self)
    }
    fn serialize_map(self, len: Option<usize>) -> Result<Self::SerializeMap, Error> {
        let len = len.ok_or_else(|| Error("map of unknown length".into()))?;
        self.out.push(Tok::Map(len));
        Ok(self)
    }
    fn serialize_u128(self, v: u128) -> Result<(), Error> {
        self.out.push(Tok::Big(v));
        Ok(())
    }
    fn serialize_struct(self, _: &'static str, _: usize) -> Result<Self, Error> {
        Ok(self)
    }
    fn serialize_struct_variant(self, _: &'static str, idx: u32, _: &'static str, _: usize) -> Result<Self, Error> {
        self.out.push(Tok::Variant(idx));
        Ok(self)
    }
}

macro_rules! compound {
    ($tr:path, $f:ident $(, $key:ident)?) => {
        impl<'a> $tr for &'a mut Ser {
            type Ok = ();
            type Error = Error;
            fn $f<T: ?Sized + Serialize>(&mut self, $($key: &'static str,)? v: &T) -> Result<(), Error> {
                $(let _ = $key;)?
                v.serialize(&mut **self)
            }
            fn end(self) -> Result<(), Error> {
                Ok(())
            }
        }
    };
}
impl<'a> ser::SerializeMap for &'a mut Ser {
    type Ok = ();
    type Error = Error;
    fn serialize_key<T: ?Sized + Serialize>(&mut self, k: &T) -> Result<(), Error> {
        k.serialize(&mut **self)
    }
    fn serialize_value<T: ?Sized + Serialize>(&mut self, v: &T) -> Result<(), Error> {
        v.serialize(&mut **self)
    }
    fn end(self) -> Result<(), Error> {
        Ok(())
    }
}
compound!(ser::SerializeSeq, serialize_element);
compound!(ser::SerializeTuple, serialize_element);
compound!(ser::SerializeTupleStruct, serialize_field);
compound!(ser::SerializeTupleVariant, serialize_field);
compound!(ser::SerializeStruct, serialize_field, key);
compound!(ser::SerializeStructVariant, serialize_field, key);

pub struct De<'t> {
    toks: &'t [Tok],
    pos: usize,
    human_readable: bool,
}

impl<'t> De<'t> {
    fn next(&mut self) -> Result<&'t Tok, Error> {
        let t = self.toks.get(self.pos).ok_or_else(|| Error("unexpected end of tokens".into()))?;
        self.pos += 1;
        Ok(t)
    }
    fn peek(&self) -> Option<&'t Tok> {
        self.toks.get(self.pos)
    }
}

macro_rules! de_int {
    ($name:ident, $visit:ident, $t:ty) => {
        fn $name<V: Visitor<'de>>(self, v: V) -> Result<V::Value, Error> {
            match self.next()? {
                Tok::I(i) => v.$visit(<$t>::try_from(*i).map_err(|_| Error("integer out of range".into()))?),
                Tok::U(u) => v.$visit(<$t>::try_from(*u).map_err(|_| Error("integer out of range".into()))?),
                t => Err(Error(format!("expected integer, found {t:?}"))),
            }
        }
    };
}

struct Counted<'a, 't> {
    de: &'a mut De<'t>,
    left: usize,
}

impl<'de, 'a, 't> SeqAccess<'de> for Counted<'a, 't> {
    type Error = Error;
    fn next_element_seed<S: DeserializeSeed<'de>>(&mut self, seed: S) -> Result<Option<S::Value>, Error> {
        if self.left == 0 {
            return Ok(None);
        }
        self.left -= 1;
        seed.deserialize(&mut *self.de).map(Some)
    }
    fn size_hint(&self) -> Option<usize> {
        Some(self.left)
    }
}

struct CountedMap<'a, 't> {
    de: &'a mut De<'t>,
    left: usize,
}

impl<'de, 'a, 't> de::MapAccess<'de> for CountedMap<'a, 't> {
    type Error = Error;
    fn next_key_seed<K: DeserializeSeed<'de>>(&mut self, seed: K) -> Result<Option<K::Value>, Error> {
        if self.left == 0 {
            return Ok(None);
        }
        self.left -= 1;
        seed.deserialize(&mut *self.de).map(Some)
    }
    fn next_value_seed<S: DeserializeSeed<'de>>(&mut self, seed: S) -> Result<S::Value, Error> {
        seed.deserialize(&mut *self.de)
    }
}

struct Enum<'a, 't> {
    de: &'a mut De<'t>,
}

impl<'de, 'a, 't> EnumAccess<'de> for Enum<'a, 't> {
    type Error = Error;
    type Variant = Self;
    fn variant_seed<S: DeserializeSeed<'de>>(self, seed: S) -> Result<(S::Value, Self), Error> {
        let idx = match self.de.next()? {
            Tok::Variant(i) => *i,
            t => return Err(Error(format!("expected variant, found {t:?}"))),
        };
        let v = seed.deserialize(de::value::U32Deserializer::<Error>::new(idx))?;
        Ok((v, self))
    }
}

impl<'de, 'a, 't> VariantAccess<'de> for Enum<'a, 't> {
    type Error = Error;
    fn unit_variant(self) -> Result<(), Error> {
        Ok(())
    }
    fn newtype_variant_seed<S: DeserializeSeed<'de>>(self, seed: S) -> Result<S::Value, Error> {
        seed.deserialize(self.de)
    }
    fn tuple_variant<V: Visitor<'de>>(self, len: usize, v: V) -> Result<V::Value, Error> {
        v.visit_seq(Counted { de: self.de, left: len })
    }
    fn struct_variant<V: Visitor<'de>>(self, fields: &'static [&'static str], v: V) -> Result<V::Value, Error> {
        v.visit_seq(Counted { de: self.de, left: fields.len() })
    }
}

impl<'de, 'a, 't> de::Deserializer<'de> for &'a mut De<'t> {
    type Error = Error;
    fn is_human_readable(&self) -> bool {
        self.human_readable
    }
    fn deserialize_any<V: Visitor<'de>>(self, _: V) -> Result<V::Value, Error> {
        Err(Error("the token format is not self-describing".into()))
    }
    fn deserialize_bool<V: Visitor<'de>>(self, v: V) -> Result<V::Value, Error> {
        match self.next()? {
            Tok::Bool(b) => v.visit_bool(*b),
            t => Err(Error(format!("expected bool, found {t:?}"))),
        }
    }
    de_int!(deserialize_i8, visit_i8, i8);
    de_int!(deserialize_i16, visit_i16, i16);
    de_int!(deserialize_i32, visit_i32, i32);
    de_int!(deserialize_i64, visit_i64, i64);
    de_int!(deserialize_u8, visit_u8, u8);
    de_int!(deserialize_u16, visit_u16, u16);
    de_int!(deserialize_u32, visit_u32, u32);
    de_int!(deserialize_u64, visit_u64, u64);
    fn deserialize_f32<V: Visitor<'de>>(self, _: V) -> Result<V::Value, Error> {
        Err(Error("f32 unsupported".into()))
    }
    fn deserialize_f64<V: Visitor<'de>>(self, _: V) -> Result<V::Value, Error> {
        Err(Error("f64 unsupported".into()))
    }
    fn deserialize_char<V: Visitor<'de>>(self, v: V) -> Result<V::Value, Error> {
        self.deserialize_str(v)
    }
    fn deserialize_str<V: Visitor<'de>>(self, v: V) -> Result<V::Value, Error> {
        match self.next()? {
            Tok::Str(s) => v.visit_str(s),
            t => Err(Error(format!("expected str, found {t:?}"))),
        }
    }
    fn deserialize_string<V: Visitor<'de>>(self, v: V) -> Result<V::Value, Error> {
        self.deserialize_str(v)
    }
    fn deserialize_bytes<V: Visitor<'de>>(self, v: V) -> Result<V::Value, Error> {
        self.deserialize_seq(v)
    }
    fn deserialize_byte_buf<V: Visitor<'de>>(self, v: V) -> Result<V::Value, Error> {
        self.deserialize_seq(v)
    }
    fn deserialize_option<V: Visitor<'de>>(self, v: V) -> Result<V::Value, Error> {
        match self.peek() {
            Some(Tok::None) => {
                self.pos += 1;
                v.visit_none()
            }
            Some(Tok::Some) => {
                self.pos += 1;
                v.visit_some(self)
            }
            t => Err(Error(format!("expected option, found {t:?}"))),
        }
    }
    fn deserialize_unit<V: Visitor<'de>>(self, v: V) -> Result<V::Value, Error> {
        match self.next()? {
            Tok::Unit => v.visit_unit(),
            t => Err(Error(format!("expected unit, found {t:?}"))),
        }
    }
    fn deserialize_unit_struct<V: Visitor<'de>>(self, _: &'static str, v: V) -> Result<V::Value, Error> {
        self.deserialize_unit(v)
    }
    fn deserialize_newtype_struct<V: Visitor<'de>>(self, _: &'static str, v: V) -> Result<V::Value, Error> {
        v.visit_newtype_struct(self)
    }
    fn deserialize_seq<V: Visitor<'de>>(self, v: V) -> Result<V::Value, Error> {
        match self.next()? {
            Tok::Seq(n) => v.visit_seq(Counted { de: self, left: *n }),
            t => Err(Error(format!("expected seq, found {t:?}"))),
        }
    }
    fn deserialize_tuple<V: Visitor<'de>>(self, len: usize, v: V) -> Result<V::Value, Error> {
        v.visit_seq(Counted { de: self, left: len })
    }
    fn deserialize_tuple_struct<V: Visitor<'de>>(self, _: &'static str, len: usize, v: V) -> Result<V::Value, Error> {
        v.visit_seq(Counted { de: self, left: len })
    }
    fn deserialize_map<V: Visitor<'de>>(self, v: V) -> Result<V::Value, Error> {
        match self.next()? {
            Tok::Map(n) => v.visit_map(CountedMap { de: self, left: *n }),
            t => Err(Error(format!("expected map, found {t:?}"))),
        }
    }
    fn deserialize_u128<V: Visitor<'de>>(self, v: V) -> Result<V::Value, Error> {
        match self.next()? {
            Tok::Big(b) => v.visit_u128(*b),
            Tok::U(u) => v.visit_u128(*u as u128),
            t => Err(Error(format!("expected u128, found {t:?}"))),
        }
    }
    fn deserialize_struct<V: Visitor<'de>>(
        self,
        _: &'static str,
        fields: &'static [&'static str],
        v: V,
    ) -> Result<V::Value, Error> {
        v.visit_seq(Counted { de: self, left: fields.len() })
    }
    fn deserialize_enum<V: Visitor<'de>>(
        self,
        _: &'static str,
        _: &'static [&'static str],
        v: V,
    ) -> Result<V::Value, Error> {
        v.visit_enum(Enum { de: self })
    }
    fn deserialize_identifier<V: Visitor<'de>>(self, _: V) -> Result<V::Value, Error> {
        Err(Error("identifiers are not part of the token format".into()))
    }
    fn deserialize_ignored_any<V: Visitor<'de>>(self, _: V) -> Result<V::Value, Error> {
        Err(Error("the token format cannot skip values".into()))
    }
}

pub fn to_tokens<T: Serialize>(v: &T) -> Result<Vec<Tok>, Error> {
    to_tokens_as(v, true)
}

pub fn to_tokens_as<T: Serialize>(v: &T, human_readable: bool) -> Result<Vec<Tok>, Error> {
    let mut s = Ser { out: Vec::new(), human_readable };
    v.serialize(&mut s)?;
    Ok(s.out)
}

pub fn from_tokens<'de, T: Deserialize<'de>>(toks: &[Tok]) -> Result<T, Error> {
    from_tokens_as(toks, true)
}

pub fn from_tokens_as<'de, T: Deserialize<'de>>(toks: &[Tok], human_readable: bool) -> Result<T, Error> {
    let mut d = De { toks, pos: 0, human_readable };
    let v = T::deserialize(&mut d)?;
    if d.pos != toks.len() {
        return Err(Error(format!("{} trailing tokens", toks.len() - d.pos)));
    }
    Ok(v)
}

pub fn roundtrip<T: Serialize + for<'de> Deserialize<'de>>(v: &T) -> Result<T, String> {
    let toks = to_tokens(v).map_err(|e| format!("serialising to tokens failed: {e}"))?;
    from_tokens(&toks).map_err(|e| format!("deserialising from tokens failed: {e}; tokens: {toks:?}"))
}

/// The same format answering `is_human_readable() == false` (a binary format like bincode / postcard).
pub fn roundtrip_binary<T: Serialize + for<'de> Deserialize<'de>>(v: &T) -> Result<T, String> {
    let toks = to_tokens_as(v, false).map_err(|e| format!("serialising to tokens (binary flavour) failed: {e}"))?;
    from_tokens_as(&toks, false).map_err(|e| format!("deserialising from tokens (binary flavour) failed: {e}; tokens: {toks:?}"))
}
