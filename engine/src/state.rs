//! Explorer state: the real arena plus the bookkeeping the oracle needs.
use crate::model::Model;
use crate::obs::{self, SlotObs};
use crate::payload::Payload;
use indextree::{Arena, NodeId};
use std::sync::Arc;

/// Every id ever issued for one slot (since creation / the last `clear()`).
#[derive(Clone, Debug, Default)]
pub struct Issued {
    /// shared prefix prepared by a deep seed run (may be tens of thousands of ids)
    pub base: Arc<Vec<NodeId>>,
    pub base_digest: u64,
    pub extra: Vec<NodeId>,
}

impl Issued {
    pub fn contains(&self, id: NodeId) -> bool {
        self.extra.contains(&id) || self.base.contains(&id)
    }
    pub fn len(&self) -> usize {
        self.base.len() + self.extra.len()
    }
    pub fn iter(&self) -> impl Iterator<Item = NodeId> + '_ {
        self.base.iter().copied().chain(self.extra.iter().copied())
    }
    pub fn digest(&self) -> u64 {
        obs::hash64(&(self.base.len(), self.base_digest, &self.extra))
    }
    pub fn from_base(base: Vec<NodeId>) -> Self {
        let d = obs::hash64(&base);
        Issued {
            base: Arc::new(base),
            base_digest: d,
            extra: Vec::new(),
        }
    }
}

#[derive(Clone)]
pub struct State {
    pub arena: Arena<Payload>,
    /// per slot: the id most recently issued for it
    pub cur: Vec<NodeId>,
    pub issued: Vec<Issued>,
    /// allocations performed on this history (bounds the exploration)
    pub allocs: usize,
    pub model: Model,
    pub obs: Vec<SlotObs>,
    pub key: u128,
    /// hash of the derived Debug rendering of the arena alone
    pub dbg: u128,
}

impl State {
    pub fn initial(arena: Arena<Payload>) -> State {
        let obs = obs::observe(&arena);
        assert!(obs.is_empty(), "initial arenas are empty");
        let dbg = obs::debug_hash(&arena);
        let key = obs::state_key(dbg, &obs, obs::hash64(&Vec::<u64>::new()), 0);
        State {
            dbg,
            arena,
            cur: Vec::new(),
            issued: Vec::new(),
            allocs: 0,
            model: Model::default(),
            obs,
            key,
        }
    }

    pub fn issued_digest(issued: &[Issued]) -> u64 {
        let v: Vec<u64> = issued.iter().map(|i| i.digest()).collect();
        obs::hash64(&v)
    }

    pub fn rekey(&mut self) {
        self.dbg = obs::debug_hash(&self.arena);
        self.key = obs::state_key(
            self.dbg,
            &self.obs,
            State::issued_digest(&self.issued),
            self.allocs,
        );
    }

    pub fn id(&self, slot: usize) -> NodeId {
        self.cur[slot]
    }
    pub fn ids(&self, slots: &[usize]) -> Vec<NodeId> {
        slots.iter().map(|&s| self.cur[s]).collect()
    }
}
