//! State judges: evaluated once per distinct reached state.
use crate::model::Model;
use crate::obs::{self, fmt_id, fmt_obs, slot_of, SlotObs};
use crate::ops::{self, guarded, Op, Outcome};
use crate::payload::{self, Payload};
use crate::state::State;
use crate::step::*;
use indextree::{Arena, NodeEdge, NodeId};
use std::num::NonZeroUsize;

fn fail(
    props: Props,
    judge: &'static str,
    shaping: bool,
    aspect: &str,
    class: &str,
    kind: &str,
    detail: String,
) -> Failure {
    Failure {
        props,
        judge,
        shaping,
        sig: format!("{}|{}|{}|{}", judge, aspect, class, kind),
        detail,
    }
}

fn pull<I: Iterator>(it: I, fuel: usize) -> (Vec<I::Item>, bool) {
    let mut v = Vec::new();
    for x in it {
        if v.len() >= fuel {
            return (v, true);
        }
        v.push(x);
    }
    (v, false)
}

fn ids_txt(v: &[NodeId]) -> String {
    v.iter()
        .map(|i| fmt_id(Some(*i)))
        .collect::<Vec<_>>()
        .join(",")
}

// ------------------------------------------------------------------------------------
// J01: link invariants, model-free (C01; "no link to a removed / stale id" also C12)
// ------------------------------------------------------------------------------------
pub fn j01(arena: &Arena<Payload>, obs: &[SlotObs]) -> Vec<Failure> {
    let mut out = Vec::new();
    let n = obs.len();
    let txt = || fmt_obs(obs);
    // resolve a link to a slot if it names the live current occupant
    let resolve = |id: NodeId| -> Result<usize, &'static str> {
        let x = slot_of(id);
        if x >= n {
            return Err("dangling");
        }
        if obs[x].removed {
            return Err("names-removed-node");
        }
        if obs[x].id != id || id.is_removed(arena) {
            return Err("names-earlier-generation");
        }
        Ok(x)
    };
    // the textual report of a node (its Display impl) names the same links as the accessors: wherever
    // the text says "<label>: <position>" or "no <label>" for one of the five links it must agree
    // (a rendering that does not mention a link in either form claims nothing)
    for (x, o) in obs.iter().enumerate() {
        if o.removed {
            continue;
        }
        if let Ok(text) = guarded(|| arena.as_slice()[x].to_string().to_lowercase()) {
            for (k, label) in ["parent", "previous sibling", "next sibling", "first child", "last child"].iter().enumerate() {
                let want = o.links[k].map(|id| usize::from(id));
                let said: Option<Option<usize>> = if let Some(i) = text.find(&format!("{label}: ")) {
                    let digits: String = text[i + label.len() + 2..].chars().take_while(|c| c.is_ascii_digit()).collect();
                    digits.parse::<usize>().ok().map(Some)
                } else if text.contains(&format!("no {label}")) {
                    Some(None)
                } else {
                    None
                };
                if let Some(said) = said {
                    if said != want {
                        out.push(fail(C01, "links", false, obs::LINK_NAMES[k], "-", "display-of-node-misreports-link",
                            format!("the node in slot {} displays as {text:?}, but its {} is {}; arena: {}", x + 1, obs::LINK_NAMES[k], fmt_id(o.links[k]), txt())));
                    }
                }
            }
        }
    }
    let mut bad_link = false;
    for (x, o) in obs.iter().enumerate() {
        if o.removed {
            continue;
        }
        for k in 0..5 {
            if let Some(id) = o.links[k] {
                if let Err(kind) = resolve(id) {
                    bad_link = true;
                    out.push(fail(
                        // an accessor handing out an id of an earlier generation hands out an id
                        // the arena issued before and has since removed (C06)
                        C01 | C12 | if kind == "names-earlier-generation" { C06 } else { 0 },
                        "links",
                        true,
                        obs::LINK_NAMES[k],
                        "-",
                        kind,
                        format!(
                            "live slot {} has {} = {} ({kind}); arena: {}",
                            x + 1,
                            obs::LINK_NAMES[k],
                            fmt_id(Some(id)),
                            txt()
                        ),
                    ));
                }
                if slot_of(id) == x && k != 0 {
                    // (a self parent is reported by the acyclicity judge as well)
                }
            }
        }
    }
    if bad_link {
        return out;
    }
    let link = |x: usize, k: usize| obs[x].links[k].map(slot_of);
    for x in (0..n).filter(|&x| !obs[x].removed) {
        // next/prev symmetry, same parent
        if let Some(y) = link(x, 2) {
            if link(y, 1) != Some(x) {
                out.push(fail(C01, "links", true, "next/prev", "-", "asymmetric",
                    format!("next({})={} but prev({})={:?}; arena: {}", x + 1, y + 1, y + 1, link(y, 1).map(|s| s + 1), txt())));
            }
            if link(y, 0) != link(x, 0) {
                out.push(fail(C01, "links", true, "siblings-parent", "-", "siblings-disagree-on-parent",
                    format!("siblings {} and {} report different parents; arena: {}", x + 1, y + 1, txt())));
            }
        }
        if let Some(y) = link(x, 1) {
            if link(y, 2) != Some(x) {
                out.push(fail(C01, "links", true, "prev/next", "-", "asymmetric",
                    format!("prev({})={} but next({})={:?}; arena: {}", x + 1, y + 1, y + 1, link(y, 2).map(|s| s + 1), txt())));
            }
        }
        // first/last child
        let (fc, lc) = (link(x, 3), link(x, 4));
        if fc.is_some() != lc.is_some() {
            out.push(fail(C01, "links", true, "first/last", "-", "first-xor-last",
                format!("slot {} has first_child {:?} but last_child {:?}; arena: {}", x + 1, fc.map(|s| s + 1), lc.map(|s| s + 1), txt())));
            continue;
        }
        let namers: Vec<usize> = (0..n)
            .filter(|&y| !obs[y].removed && link(y, 0) == Some(x))
            .collect();
        match (fc, lc) {
            (None, None) => {
                if !namers.is_empty() {
                    out.push(fail(C01, "links", true, "children-chain", "-", "child-not-in-chain",
                        format!("slot(s) {:?} name {} as parent but it has no children; arena: {}", namers.iter().map(|s| s + 1).collect::<Vec<_>>(), x + 1, txt())));
                }
            }
            (Some(f), Some(l)) => {
                let mut chain = vec![f];
                let mut c = f;
                let mut ok = link(f, 1).is_none();
                while let Some(nx) = link(c, 2) {
                    if chain.len() > n {
                        ok = false;
                        break;
                    }
                    chain.push(nx);
                    c = nx;
                }
                ok = ok && c == l && link(l, 2).is_none();
                let mut sorted = chain.clone();
                sorted.sort_unstable();
                sorted.dedup();
                if !ok || sorted.len() != chain.len() || sorted != namers {
                    out.push(fail(C01, "links", true, "children-chain", "-", "chain-mismatch",
                        format!("children chain of {} from first to last is {:?} but the nodes naming it as parent are {:?}; arena: {}", x + 1,
                            chain.iter().map(|s| s + 1).collect::<Vec<_>>(), namers.iter().map(|s| s + 1).collect::<Vec<_>>(), txt())));
                }
            }
            _ => unreachable!(),
        }
    }
    out
}

// ------------------------------------------------------------------------------------
// J02: acyclicity + termination of walks (C02)
// ------------------------------------------------------------------------------------
pub fn j02(obs: &[SlotObs]) -> Vec<Failure> {
    let mut out = Vec::new();
    let n = obs.len();
    let link = |x: usize, k: usize| obs[x].links[k].map(slot_of).filter(|&s| s < n);
    for x in (0..n).filter(|&x| !obs[x].removed) {
        for (k, name) in [(0usize, "parent"), (1, "previous_sibling"), (2, "next_sibling")] {
            let mut c = x;
            let mut steps = 0;
            while let Some(y) = link(c, k) {
                steps += 1;
                c = y;
                if steps >= n.max(1) {
                    break;
                }
            }
            if steps >= n.max(1) {
                out.push(fail(
                    C02,
                    "acyclic",
                    true,
                    name,
                    "-",
                    "cycle",
                    format!(
                        "following {name} links from slot {} does not end within {} steps; arena: {}",
                        x + 1,
                        n,
                        fmt_obs(obs)
                    ),
                ));
                return out;
            }
        }
    }
    out
}

// ------------------------------------------------------------------------------------
// C07 drain: the free slots a clone hands out before it grows
// ------------------------------------------------------------------------------------
pub fn drain(s: &State, retire_min: usize) -> Vec<Failure> {
    let mut out = Vec::new();
    let count0 = s.arena.count();
    let mut c = s.arena.clone();
    let mut got: Vec<usize> = Vec::new();
    let r = guarded(|| {
        for _ in 0..=count0 {
            let id = c.new_node(Payload(100));
            let x = slot_of(id);
            if x >= count0 {
                return true;
            }
            got.push(x);
        }
        false
    });
    let removed = s.model.removed_slots();
    let detail = |got: &Vec<usize>| {
        format!(
            "allocating on a clone recycled slots {:?}; removed slots are {:?}; arena: {}",
            got.iter().map(|x| x + 1).collect::<Vec<_>>(),
            removed.iter().map(|x| x + 1).collect::<Vec<_>>(),
            fmt_obs(&s.obs)
        )
    };
    match r {
        Err(m) => out.push(fail(C07 | C05, "drain", true, "new_node", "-", "allocation-panicked",
            format!("allocation on a clone panicked: {m}; {}", detail(&got)))),
        Ok(false) => out.push(fail(C07, "drain", true, "new_node", "-", "never-grows",
            format!("the arena never grew: {}", detail(&got)))),
        Ok(true) => {
            let mut sorted = got.clone();
            sorted.sort_unstable();
            let mut dd = sorted.clone();
            dd.dedup();
            if dd.len() != sorted.len() {
                out.push(fail(C07, "drain", true, "new_node", "-", "slot-handed-out-twice", detail(&got)));
            } else if sorted.iter().any(|x| !removed.contains(x)) {
                out.push(fail(C07 | C08, "drain", true, "new_node", "-", "live-slot-handed-out", detail(&got)));
            } else {
                let lost: Vec<usize> = removed
                    .iter()
                    .copied()
                    .filter(|x| !sorted.contains(x) && s.issued[*x].len() < retire_min)
                    .collect();
                if !lost.is_empty() {
                    out.push(fail(C07, "drain", true, "new_node", "-", "free-slot-lost",
                        format!("slot(s) {:?} were removed but are never recycled; {}", lost.iter().map(|x| x + 1).collect::<Vec<_>>(), detail(&got))));
                }
            }
        }
    }
    out
}

// ------------------------------------------------------------------------------------
// expected traversal sequences from the model
// ------------------------------------------------------------------------------------
pub struct Expected<'a> {
    pub m: &'a Model,
    pub cur: &'a [NodeId],
}

impl<'a> Expected<'a> {
    fn id(&self, x: usize) -> NodeId {
        self.cur[x]
    }
    fn ids(&self, v: Vec<usize>) -> Vec<NodeId> {
        v.into_iter().map(|x| self.cur[x]).collect()
    }
    pub fn ancestors(&self, x: usize) -> Vec<NodeId> {
        let mut v = vec![x];
        v.extend(self.m.ancestors(x));
        self.ids(v)
    }
    pub fn predecessors(&self, x: usize) -> Vec<NodeId> {
        let mut v = vec![x];
        let mut c = x;
        loop {
            let l = self.m.links(c);
            match l.prev.or(l.parent) {
                Some(y) => {
                    v.push(y);
                    c = y;
                }
                None => break,
            }
        }
        self.ids(v)
    }
    pub fn preceding(&self, x: usize) -> Vec<NodeId> {
        let list = self.m.list_of(x);
        let pos = list.iter().position(|&y| y == x).unwrap();
        self.ids(list[..=pos].iter().rev().copied().collect())
    }
    pub fn following(&self, x: usize) -> Vec<NodeId> {
        let list = self.m.list_of(x);
        let pos = list.iter().position(|&y| y == x).unwrap();
        self.ids(list[pos..].to_vec())
    }
    pub fn children(&self, x: usize) -> Vec<NodeId> {
        self.ids(self.m.children[x].clone())
    }
    pub fn descendants(&self, x: usize) -> Vec<NodeId> {
        self.ids(self.m.subtree(x))
    }
    pub fn traverse(&self, x: usize) -> Vec<NodeEdge> {
        let mut v = vec![NodeEdge::Start(self.id(x))];
        for &c in &self.m.children[x] {
            v.extend(self.traverse(c));
        }
        v.push(NodeEdge::End(self.id(x)));
        v
    }
    pub fn next_edge(&self, start: bool, x: usize) -> Option<NodeEdge> {
        let l = self.m.links(x);
        if start {
            Some(match l.first {
                Some(c) => NodeEdge::Start(self.id(c)),
                None => NodeEdge::End(self.id(x)),
            })
        } else {
            match l.next {
                Some(nx) => Some(NodeEdge::Start(self.id(nx))),
                None => l.parent.map(|p| NodeEdge::End(self.id(p))),
            }
        }
    }
    pub fn prev_edge(&self, start: bool, x: usize) -> Option<NodeEdge> {
        let l = self.m.links(x);
        if !start {
            Some(match l.last {
                Some(c) => NodeEdge::End(self.id(c)),
                None => NodeEdge::Start(self.id(x)),
            })
        } else {
            match l.prev {
                Some(pv) => Some(NodeEdge::End(self.id(pv))),
                None => l.parent.map(|p| NodeEdge::Start(self.id(p))),
            }
        }
    }
}

fn edges_txt(v: &[NodeEdge]) -> String {
    v.iter()
        .map(|e| match e {
            NodeEdge::Start(i) => format!("S{}", fmt_id(Some(*i))),
            NodeEdge::End(i) => format!("E{}", fmt_id(Some(*i))),
        })
        .collect::<Vec<_>>()
        .join(",")
}

/// The nine iterators from one start node, as (name, ids) — edges are flattened by the caller.
#[allow(deprecated)]
pub fn run_id_iterators(
    arena: &Arena<Payload>,
    id: NodeId,
    fuel: usize,
) -> Vec<(&'static str, Vec<NodeId>, bool)> {
    let mut v = Vec::new();
    let (a, o) = pull(id.ancestors(arena), fuel);
    v.push(("ancestors", a, o));
    let (a, o) = pull(id.predecessors(arena), fuel);
    v.push(("predecessors", a, o));
    let (a, o) = pull(id.preceding_siblings(arena), fuel);
    v.push(("preceding_siblings", a, o));
    let (a, o) = pull(id.following_siblings(arena), fuel);
    v.push(("following_siblings", a, o));
    let (a, o) = pull(id.children(arena), fuel);
    v.push(("children", a, o));
    let (a, o) = pull(id.reverse_children(arena), fuel);
    v.push(("reverse_children", a, o));
    let (a, o) = pull(id.descendants(arena), fuel);
    v.push(("descendants", a, o));
    v
}

pub fn run_edge_iterators(
    arena: &Arena<Payload>,
    id: NodeId,
    fuel: usize,
) -> Vec<(&'static str, Vec<NodeEdge>, bool)> {
    let mut v = Vec::new();
    let (a, o) = pull(id.traverse(arena), 2 * fuel);
    v.push(("traverse", a, o));
    let (a, o) = pull(id.reverse_traverse(arena), 2 * fuel);
    v.push(("reverse_traverse", a, o));
    v
}

// ------------------------------------------------------------------------------------
// C02 (observer part): every iterator from every start node is finite, no repeats
// ------------------------------------------------------------------------------------
pub fn c02_iterators(s: &State) -> Vec<Failure> {
    let mut out = Vec::new();
    let n = s.arena.count();
    let fuel = 2 * n + 4;
    for x in 0..n {
        let id = s.cur[x];
        let class = s.model.position(x);
        let r = guarded(|| (run_id_iterators(&s.arena, id, fuel), run_edge_iterators(&s.arena, id, fuel)));
        match r {
            Err(m) => {
                // iterators started at a removed node are not covered by a property's "valid call"
                if s.model.is_live(x) {
                    out.push(fail(C02 | C05, "iter-finite", false, "any", class, "iterator-panicked",
                        format!("an iterator started at slot {} panicked: {m}", x + 1)));
                }
            }
            Ok((idits, edgeits)) => {
                for (name, seq, overflow) in idits {
                    let mut d = seq.clone();
                    d.sort();
                    d.dedup();
                    if overflow || d.len() != seq.len() {
                        out.push(fail(C02, "iter-finite", false, name, class,
                            if overflow { "does-not-terminate" } else { "yields-node-twice" },
                            format!("{name} from slot {} yields {}{}", x + 1, ids_txt(&seq), if overflow { " … (fuel exhausted)" } else { "" })));
                    }
                }
                for (name, seq, overflow) in edgeits {
                    let mut d: Vec<String> = seq.iter().map(|e| format!("{e:?}")).collect();
                    d.sort();
                    d.dedup();
                    if overflow || d.len() != seq.len() {
                        out.push(fail(C02, "iter-finite", false, name, class,
                            if overflow { "does-not-terminate" } else { "yields-edge-twice" },
                            format!("{name} from slot {} yields {}{}", x + 1, edges_txt(&seq), if overflow { " … (fuel exhausted)" } else { "" })));
                    }
                }
            }
        }
    }
    out
}

// ------------------------------------------------------------------------------------
// C09: traversal sequences
// ------------------------------------------------------------------------------------
pub fn c09(s: &State) -> Vec<Failure> {
    let mut out = Vec::new();
    let e = Expected { m: &s.model, cur: &s.cur };
    let n = s.arena.count();
    let fuel = 2 * n + 4;
    for x in s.model.live_slots() {
        let id = s.cur[x];
        let class = s.model.position(x);
        let r = guarded(|| (run_id_iterators(&s.arena, id, fuel), run_edge_iterators(&s.arena, id, fuel)));
        let (idits, edgeits) = match r {
            Ok(v) => v,
            Err(m) => {
                out.push(fail(C09, "traversal", false, "any", class, "iterator-panicked",
                    format!("an iterator started at slot {} panicked: {m}", x + 1)));
                continue;
            }
        };
        for (name, seq, _) in idits {
            let exp = match name {
                "ancestors" => e.ancestors(x),
                "predecessors" => e.predecessors(x),
                "preceding_siblings" => e.preceding(x),
                "following_siblings" => e.following(x),
                "children" => e.children(x),
                "reverse_children" => {
                    let mut v = e.children(x);
                    v.reverse();
                    v
                }
                "descendants" => e.descendants(x),
                _ => unreachable!(),
            };
            if seq != exp {
                out.push(fail(C09, "traversal", false, name, class, "wrong-sequence",
                    format!("{name} from slot {} yields [{}], expected [{}]; arena: {}", x + 1, ids_txt(&seq), ids_txt(&exp), fmt_obs(&s.obs))));
            }
        }
        let tr = e.traverse(x);
        for (name, seq, _) in edgeits {
            let mut exp = tr.clone();
            if name == "reverse_traverse" {
                exp.reverse();
            }
            if seq != exp {
                out.push(fail(C09, "traversal", false, name, class, "wrong-sequence",
                    format!("{name} from slot {} yields [{}], expected [{}]; arena: {}", x + 1, edges_txt(&seq), edges_txt(&exp), fmt_obs(&s.obs))));
            }
        }
        // edge stepping
        for start in [true, false] {
            let edge = if start { NodeEdge::Start(id) } else { NodeEdge::End(id) };
            let r = guarded(|| (edge.next_traverse(&s.arena), edge.prev_traverse(&s.arena)));
            match r {
                Err(m) => out.push(fail(C09, "edge-step", false, "next/prev_traverse", class, "panicked",
                    format!("stepping from {edge:?} panicked: {m}"))),
                Ok((nx, pv)) => {
                    let (enx, epv) = (e.next_edge(start, x), e.prev_edge(start, x));
                    if nx != enx {
                        out.push(fail(C09, "edge-step", false, "next_traverse", class, "wrong-step",
                            format!("{}.next_traverse() = {:?}, expected {:?}; arena: {}", edges_txt(&[edge]), nx.map(|e| edges_txt(&[e])), enx.map(|e| edges_txt(&[e])), fmt_obs(&s.obs))));
                    }
                    if pv != epv {
                        out.push(fail(C09, "edge-step", false, "prev_traverse", class, "wrong-step",
                            format!("{}.prev_traverse() = {:?}, expected {:?}; arena: {}", edges_txt(&[edge]), pv.map(|e| edges_txt(&[e])), epv.map(|e| edges_txt(&[e])), fmt_obs(&s.obs))));
                    }
                    // the two steps are inverses of each other
                    if let Some(f) = nx {
                        if guarded(|| f.prev_traverse(&s.arena)).ok().flatten() != Some(edge) {
                            out.push(fail(C09, "edge-step", false, "next-then-prev", class, "not-inverse",
                                format!("prev_traverse(next_traverse({0})) != {0}", edges_txt(&[edge]))));
                        }
                    }
                    if let Some(f) = pv {
                        if guarded(|| f.next_traverse(&s.arena)).ok().flatten() != Some(edge) {
                            out.push(fail(C09, "edge-step", false, "prev-then-next", class, "not-inverse",
                                format!("next_traverse(prev_traverse({0})) != {0}", edges_txt(&[edge]))));
                        }
                    }
                }
            }
        }
    }
    out
}

// ------------------------------------------------------------------------------------
// C10: double-ended iterators, every pull pattern
// ------------------------------------------------------------------------------------
/// C02 (observer): under every front/back pull pattern the double-ended iterators stay finite
/// and yield no node twice. (Order and completeness are C10's business, not checked here.)
pub fn c02_mixed_pulls(s: &State) -> Vec<Failure> {
    let mut out = Vec::new();
    let n = s.arena.count();
    for x in s.model.live_slots() {
        let id = s.cur[x];
        let class = s.model.position(x);
        for which in 0..3 {
            let name = ["children", "preceding_siblings", "following_siblings"][which];
            let plen = n + 2;
            for pat in 0u32..(1 << plen) {
                let r = guarded(|| {
                    macro_rules! run {
                        ($it:expr) => {{
                            let mut it = $it;
                            let mut got = Vec::with_capacity(plen);
                            for k in 0..plen {
                                got.push(if pat >> k & 1 == 0 { it.next() } else { it.next_back() });
                            }
                            got
                        }};
                    }
                    match which {
                        0 => run!(id.children(&s.arena)),
                        1 => run!(id.preceding_siblings(&s.arena)),
                        _ => run!(id.following_siblings(&s.arena)),
                    }
                });
                if let Ok(got) = r {
                    let mut ids: Vec<NodeId> = got.iter().flatten().copied().collect();
                    let total = ids.len();
                    ids.sort();
                    ids.dedup();
                    if ids.len() != total || total > n {
                        let pat_txt: String = (0..plen).map(|k| if pat >> k & 1 == 0 { 'F' } else { 'B' }).collect();
                        out.push(fail(C02, "iter-finite", false, name, class,
                            if ids.len() != total { "yields-node-twice" } else { "does-not-terminate" },
                            format!("{name}({}) pulled {pat_txt} (F=next, B=next_back) yields {:?}; arena: {}", x + 1, got.iter().map(|i| fmt_id(*i)).collect::<Vec<_>>(), fmt_obs(&s.obs))));
                        break;
                    }
                }
            }
        }
    }
    out
}

/// C09 (observer): an iterator yields the documented sequence *and nothing more*: once one
/// end has delivered all of it, the other end has nothing left either.
pub fn c09_nothing_more(s: &State) -> Vec<Failure> {
    let mut out = Vec::new();
    let e = Expected { m: &s.model, cur: &s.cur };
    for x in s.model.live_slots() {
        let id = s.cur[x];
        let class = s.model.position(x);
        for which in 0..3 {
            let (name, fwd) = match which {
                0 => ("children", e.children(x)),
                1 => ("preceding_siblings", e.preceding(x)),
                _ => ("following_siblings", e.following(x)),
            };
            let l = fwd.len();
            for front_first in [true, false] {
                let r = guarded(|| {
                    macro_rules! run {
                        ($it:expr) => {{
                            let mut it = $it;
                            let mut main = Vec::new();
                            for _ in 0..l {
                                main.push(if front_first { it.next() } else { it.next_back() });
                            }
                            let extra = [
                                if front_first { it.next_back() } else { it.next() },
                                if front_first { it.next() } else { it.next_back() },
                            ];
                            (main, extra)
                        }};
                    }
                    match which {
                        0 => run!(id.children(&s.arena)),
                        1 => run!(id.preceding_siblings(&s.arena)),
                        _ => run!(id.following_siblings(&s.arena)),
                    }
                });
                if let Ok((main, extra)) = r {
                    let all: Vec<NodeId> = main.iter().flatten().copied().collect();
                    let mut want = fwd.clone();
                    if !front_first {
                        want.reverse();
                    }
                    // the one-directional sequences themselves are judged by the main C09 judge
                    if all == want && (extra[0].is_some() || extra[1].is_some()) {
                        out.push(fail(C09, "traversal", false, name, class, "yields-more-than-the-sequence",
                            format!("{name}({}) delivered its whole sequence [{}] from the {} and then still yields {:?} from the other end; arena: {}", x + 1, ids_txt(&all),
                                if front_first { "front" } else { "back" }, extra.iter().map(|i| fmt_id(*i)).collect::<Vec<_>>(), fmt_obs(&s.obs))));
                    }
                }
            }
        }
    }
    out
}

/// C09 (observer): a clone taken after k elements continues where the original stands — both
/// yield the same remainder of the documented sequence (the look-ahead idiom).
#[allow(deprecated)]
pub fn c09_clone_resume(s: &State) -> Vec<Failure> {
    let mut out = Vec::new();
    let n = s.arena.count();
    let fuel = 2 * n + 4;
    for x in s.model.live_slots() {
        let id = s.cur[x];
        let class = s.model.position(x);
        macro_rules! check {
            ($name:expr, $mk:expr, $fuel:expr) => {{
                let r = guarded(|| {
                    let full: Vec<_> = pull($mk, $fuel).0;
                    let mut bad = None;
                    for k in 0..=full.len() {
                        let mut it = $mk;
                        for _ in 0..k {
                            it.next();
                        }
                        let c = it.clone();
                        let rest_clone: Vec<_> = pull(c, $fuel).0;
                        let rest_orig: Vec<_> = pull(it, $fuel).0;
                        if rest_clone != rest_orig || rest_orig[..] != full[k.min(full.len())..] {
                            bad = Some((k, format!("clone yields {:?}", rest_clone), format!("{:?}", rest_orig)));
                            break;
                        }
                        // the provided methods a type may override agree with repeated next()
                        let rest = &full[k.min(full.len())..];
                        let mk_at = |k: usize| {
                            let mut it = $mk;
                            for _ in 0..k {
                                it.next();
                            }
                            it
                        };
                        if mk_at(k).last() != rest.last().cloned() {
                            bad = Some((k, format!("last() = {:?}", mk_at(k).last()), format!("{:?}", rest)));
                            break;
                        }
                        if mk_at(k).count() != rest.len() {
                            bad = Some((k, format!("count() = {}", mk_at(k).count()), format!("{:?}", rest)));
                            break;
                        }
                        for jx in 0..=rest.len() {
                            if mk_at(k).nth(jx) != rest.get(jx).cloned() {
                                bad = Some((k, format!("nth({jx}) = {:?}", mk_at(k).nth(jx)), format!("{:?}", rest)));
                                break;
                            }
                        }
                        // fused: once exhausted, the iterator stays exhausted
                        if k == full.len() {
                            let mut it = mk_at(k);
                            let after: Vec<_> = (0..3).map(|_| it.next()).collect();
                            if after.iter().any(|x| x.is_some()) {
                                bad = Some((k, format!("polled again after the end it yields {:?}", after), "[]".to_string()));
                                break;
                            }
                        }
                        let (lo, hi) = mk_at(k).size_hint();
                        if lo > rest.len() || hi.map(|h| h < rest.len()).unwrap_or(false) {
                            bad = Some((k, format!("size_hint() = ({lo}, {hi:?})"), format!("{:?}", rest)));
                            break;
                        }
                        if bad.is_some() {
                            break;
                        }
                    }
                    bad
                });
                if let Ok(Some((k, c, o))) = r {
                    out.push(fail(C09, "traversal", false, $name, class, if c.starts_with("clone") { "clone-does-not-resume" } else { "provided-method-disagrees-with-next" },
                        format!("{}({}) after {} elements: {}, but the rest of the sequence is {}", $name, x + 1, k, c, o)));
                }
            }};
        }
        check!("ancestors", id.ancestors(&s.arena), fuel);
        check!("predecessors", id.predecessors(&s.arena), fuel);
        check!("preceding_siblings", id.preceding_siblings(&s.arena), fuel);
        check!("following_siblings", id.following_siblings(&s.arena), fuel);
        check!("children", id.children(&s.arena), fuel);
        check!("reverse_children", id.reverse_children(&s.arena), fuel);
        check!("descendants", id.descendants(&s.arena), fuel);
        check!("traverse", id.traverse(&s.arena), 2 * fuel);
        check!("reverse_traverse", id.reverse_traverse(&s.arena), 2 * fuel);
    }
    // clone_from: an iterator made for one start node and partly consumed, overwritten with one made for
    // another start node and partly consumed, continues exactly like the source (a type that writes its
    // own clone_from must copy every field) and leaves the source untouched
    let live: Vec<usize> = s.model.live_slots();
    macro_rules! check_cf {
        ($name:expr, $mk:expr, $fuel:expr) => {{
            let r = guarded(|| clone_from_probe(&$mk, &live, $fuel));
            if let Ok(Some((x, y, d))) = r {
                out.push(fail(C09, "traversal", false, $name, s.model.position(y), "clone_from-does-not-resume",
                    format!("{}({}) overwritten by clone_from with {}({}): {}", $name, x + 1, $name, y + 1, d)));
            }
        }};
    }
    let a = &s.arena;
    check_cf!("ancestors", |x: usize| s.cur[x].ancestors(a), fuel);
    check_cf!("predecessors", |x: usize| s.cur[x].predecessors(a), fuel);
    check_cf!("preceding_siblings", |x: usize| s.cur[x].preceding_siblings(a), fuel);
    check_cf!("following_siblings", |x: usize| s.cur[x].following_siblings(a), fuel);
    check_cf!("children", |x: usize| s.cur[x].children(a), fuel);
    check_cf!("reverse_children", |x: usize| s.cur[x].reverse_children(a), fuel);
    check_cf!("descendants", |x: usize| s.cur[x].descendants(a), fuel);
    check_cf!("traverse", |x: usize| s.cur[x].traverse(a), 2 * fuel);
    check_cf!("reverse_traverse", |x: usize| s.cur[x].reverse_traverse(a), 2 * fuel);
    out
}

/// `dst.clone_from(&src)` for every pair of start nodes and every consumed prefix of the source (the
/// destination fresh, one element in, and exhausted): what dst then yields, what src still yields, and
/// what a second clone_from onto an exhausted destination yields.
fn clone_from_probe<I, F>(mk: &F, live: &[usize], fuel: usize) -> Option<(usize, usize, String)>
where
    I: Iterator + Clone,
    I::Item: PartialEq + std::fmt::Debug + Clone,
    F: Fn(usize) -> I,
{
    for &y in live {
        let full: Vec<I::Item> = pull(mk(y), fuel).0;
        for &x in live {
            let dst_len = pull(mk(x), fuel).0.len();
            let mut dst_prefixes = vec![0usize, 1, dst_len + 1];
            dst_prefixes.dedup();
            for ks in 0..=full.len() {
                for &kd in &dst_prefixes {
                    let mut dst = mk(x);
                    for _ in 0..kd {
                        dst.next();
                    }
                    let mut src = mk(y);
                    for _ in 0..ks {
                        src.next();
                    }
                    dst.clone_from(&src);
                    let got: Vec<I::Item> = pull(dst, fuel).0;
                    let rest = &full[ks..];
                    if got[..] != rest[..] {
                        return Some((x, y, format!("destination {kd} elements in, source {ks} elements in: the destination then yields {:?}, the source's remaining sequence is {:?}", got, rest)));
                    }
                    let still: Vec<I::Item> = pull(src, fuel).0;
                    if still[..] != rest[..] {
                        return Some((x, y, format!("source {ks} elements in: after being the argument of clone_from it yields {:?} instead of {:?}", still, rest)));
                    }
                }
            }
        }
    }
    None
}

// ------------------------------------------------------------------------------------
// iterator protocol: every provided method a type may override (nth, last, count, fold, size_hint;
// nth_back, rfold) — and the adaptors built on them (skip, step_by, rev, by_ref) — agrees with
// repeated next()/next_back() from every partly consumed state, and leaves the iterator where
// repeated next() would have left it
// ------------------------------------------------------------------------------------
pub struct ProtoFail {
    pub why: String,
    /// an element was delivered that the iterator had already delivered, or more often than it occurs
    pub dup: bool,
}

fn excess<T: PartialEq>(produced: &[T], allowed: &[T]) -> bool {
    produced.iter().any(|x| produced.iter().filter(|y| *y == x).count() > allowed.iter().filter(|y| *y == x).count())
}

fn probe_indices(len: usize) -> Vec<usize> {
    let mut v = vec![0, 1, 2, 3, len.saturating_sub(1), len, len + 1];
    v.sort_unstable();
    v.dedup();
    v
}

/// forward-only checks of the state `at()` whose remaining sequence is `rest`
fn proto_fwd_at<I>(at: &dyn Fn() -> I, rest: &[I::Item], fuel: usize, ctx: &str) -> Option<ProtoFail>
where
    I: Iterator + Clone,
    I::Item: PartialEq + Clone + std::fmt::Debug,
{
    let l = rest.len();
    let bad = |what: String, got: &[I::Item]| Some(ProtoFail {
        why: format!("{ctx} the rest is {:?}, but {what}", rest),
        dup: excess(got, rest),
    });
    for j in probe_indices(l) {
        let mut it = at();
        let r = it.nth(j);
        let (after, _) = pull(it, fuel);
        let mut got: Vec<I::Item> = r.clone().into_iter().collect();
        got.extend(after.iter().cloned());
        let want_after = &rest[(j + 1).min(l)..];
        if r != rest.get(j).cloned() || after[..] != *want_after {
            return bad(format!("nth({j}) returns {:?} and the iterator then yields {:?}", r, after), &got);
        }
        let (got, _) = pull(at().skip(j), fuel);
        if got[..] != rest[j.min(l)..] {
            return bad(format!("skip({j}) yields {:?}", got), &got);
        }
    }
    for st in [2usize, 3] {
        let (got, _) = pull(at().step_by(st), fuel);
        let want: Vec<I::Item> = rest.iter().step_by(st).cloned().collect();
        if got != want {
            return bad(format!("step_by({st}) yields {:?}", got), &got);
        }
    }
    let r = at().last();
    if r != rest.last().cloned() {
        return bad(format!("last() = {:?}", r), &r.clone().into_iter().collect::<Vec<_>>());
    }
    let c = at().count();
    if c != l {
        return Some(ProtoFail { why: format!("{ctx} the rest is {:?}, but count() = {c}", rest), dup: c > l });
    }
    let got = at().fold(Vec::new(), |mut v, x| {
        v.push(x);
        v
    });
    if got[..] != *rest {
        return bad(format!("fold()/for_each() visits {:?}", got), &got);
    }
    let (lo, hi) = at().size_hint();
    if lo > l || hi.map(|h| h < l).unwrap_or(false) {
        return Some(ProtoFail { why: format!("{ctx} the rest is {:?}, but size_hint() = ({lo}, {hi:?})", rest), dup: false });
    }
    // the other consumers a type may override
    {
        let mut got = Vec::new();
        at().for_each(|x| got.push(x));
        if got[..] != *rest {
            return bad(format!("for_each() visits {:?}", got), &got);
        }
        let got: Vec<I::Item> = at().collect();
        if got[..] != *rest {
            return bad(format!("collect() gives {:?}", got), &got);
        }
        let r = at().reduce(|_, b| b);
        if r != rest.last().cloned() {
            return bad(format!("reduce(|_, b| b) = {:?}", r), &r.clone().into_iter().collect::<Vec<_>>());
        }
        let pos = |x: &I::Item| rest.iter().position(|y| y == x).unwrap_or(usize::MAX);
        let r = at().max_by(|a, b| pos(a).cmp(&pos(b)));
        if r != rest.last().cloned() {
            return bad(format!("max_by(position) = {:?}", r), &r.clone().into_iter().collect::<Vec<_>>());
        }
        let r = at().min_by(|a, b| pos(a).cmp(&pos(b)));
        if r != rest.first().cloned() {
            return bad(format!("min_by(position) = {:?}", r), &r.clone().into_iter().collect::<Vec<_>>());
        }
        if !at().eq(rest.iter().cloned()) {
            return Some(ProtoFail { why: format!("{ctx} the rest is {:?}, but eq() with that sequence is false", rest), dup: false });
        }
    }
    // short-circuiting searches (find, position, any, all) stop right after the element found
    for j in probe_indices(l) {
        let target = rest.get(j).cloned();
        let want_after: &[I::Item] = &rest[(j + 1).min(l)..];
        macro_rules! search {
            ($name:expr, $call:expr, $hit:expr) => {{
                let mut it = at();
                let hit: bool = $call(&mut it);
                let (after, _) = pull(it, fuel);
                if hit != $hit || after[..] != *want_after {
                    return bad(format!("{} for element {j} answers {hit} and the iterator then yields {:?}", $name, after), &after);
                }
            }};
        }
        let t = target.clone();
        search!("find()", |it: &mut I| it.find(|x| Some(x) == t.as_ref()).is_some(), target.is_some());
        let t = target.clone();
        search!("position()", |it: &mut I| it.position(|x| Some(&x) == t.as_ref()).is_some(), target.is_some());
        let t = target.clone();
        search!("any()", |it: &mut I| it.any(|x| Some(&x) == t.as_ref()), target.is_some());
        let t = target.clone();
        search!("all()", |it: &mut I| !it.all(|x| Some(&x) != t.as_ref()), target.is_some());
        let t = target.clone();
        search!("find_map()", |it: &mut I| it.find_map(|x| if Some(&x) == t.as_ref() { Some(()) } else { None }).is_some(), target.is_some());
    }
    // consuming through a &mut borrow leaves an exhausted iterator
    let mut it = at();
    let c = it.by_ref().count();
    let again = [it.next(), it.next()];
    if c != l || again.iter().any(|x| x.is_some()) {
        let got: Vec<I::Item> = again.iter().flatten().cloned().collect();
        return bad(format!("by_ref().count() = {c} and the iterator then yields {:?}", again), &got);
    }
    None
}

/// the checks that involve the back end of a double-ended iterator
fn proto_back_at<I>(at: &dyn Fn() -> I, rest: &[I::Item], fuel: usize, ctx: &str) -> Option<ProtoFail>
where
    I: DoubleEndedIterator + Clone,
    I::Item: PartialEq + Clone + std::fmt::Debug,
{
    let l = rest.len();
    let rev: Vec<I::Item> = rest.iter().rev().cloned().collect();
    let bad = |what: String, got: &[I::Item]| Some(ProtoFail {
        why: format!("{ctx} the rest is {:?}, but {what}", rest),
        dup: excess(got, rest),
    });
    for j in probe_indices(l) {
        // nth from the front, the rest drained from the back
        let mut it = at();
        let r = it.nth(j);
        let (after, _) = pull(it.rev(), fuel);
        let mut got: Vec<I::Item> = r.clone().into_iter().collect();
        got.extend(after.iter().cloned());
        let want: Vec<I::Item> = rest[(j + 1).min(l)..].iter().rev().cloned().collect();
        if r != rest.get(j).cloned() || after != want {
            return bad(format!("nth({j}) returns {:?} and the iterator then yields {:?} from the back", r, after), &got);
        }
        // nth_back, the rest drained from the front / from the back
        for from_back in [false, true] {
            let mut it = at();
            let r = it.nth_back(j);
            let after = if from_back { pull(it.rev(), fuel).0 } else { pull(it, fuel).0 };
            let mut got: Vec<I::Item> = r.clone().into_iter().collect();
            got.extend(after.iter().cloned());
            let keep = &rest[..l.saturating_sub(j + 1)];
            let want: Vec<I::Item> = if from_back { keep.iter().rev().cloned().collect() } else { keep.to_vec() };
            if r != rev.get(j).cloned() || after != want {
                return bad(format!("nth_back({j}) returns {:?} and the iterator then yields {:?} from the {}", r, after, if from_back { "back" } else { "front" }), &got);
            }
        }
        let (got, _) = pull(at().rev().skip(j), fuel);
        if got[..] != rev[j.min(l)..] {
            return bad(format!("rev().skip({j}) yields {:?}", got), &got);
        }
    }
    let (got, _) = pull(at().rev().step_by(2), fuel);
    let want: Vec<I::Item> = rev.iter().step_by(2).cloned().collect();
    if got != want {
        return bad(format!("rev().step_by(2) yields {:?}", got), &got);
    }
    let got = at().rfold(Vec::new(), |mut v, x| {
        v.push(x);
        v
    });
    if got != rev {
        return bad(format!("rfold() visits {:?}", got), &got);
    }
    for j in probe_indices(l) {
        let target = rev.get(j).cloned();
        let mut it = at();
        let t = target.clone();
        let hit = it.rfind(|x| Some(x) == t.as_ref()).is_some();
        let (after, _) = pull(it, fuel);
        if hit != target.is_some() || after[..] != rest[..l.saturating_sub(j + 1)] {
            return bad(format!("rfind() for element {j} from the back answers {hit} and the iterator then yields {:?}", after), &after);
        }
    }
    let r = at().rev().last();
    if r != rest.first().cloned() {
        return bad(format!("rev().last() = {:?}", r), &r.clone().into_iter().collect::<Vec<_>>());
    }
    let c = at().rev().count();
    if c != l {
        return Some(ProtoFail { why: format!("{ctx} the rest is {:?}, but rev().count() = {c}", rest), dup: c > l });
    }
    None
}

pub fn proto_fwd<I, F>(mk: F, full: &[I::Item], fuel: usize) -> Option<ProtoFail>
where
    I: Iterator + Clone,
    I::Item: PartialEq + Clone + std::fmt::Debug,
    F: Fn() -> I,
{
    let len = full.len();
    for k in 0..=len + 1 {
        // (k = len + 1: one call beyond the end)
        let at = || {
            let mut it = mk();
            for _ in 0..k {
                it.next();
            }
            it
        };
        let ctx = format!("after {k} calls of next()");
        if let Some(f) = proto_fwd_at(&at, &full[k.min(len)..], fuel, &ctx) {
            return Some(f);
        }
    }
    None
}

pub fn proto_de<I, F>(mk: F, full: &[I::Item], fuel: usize) -> Option<ProtoFail>
where
    I: DoubleEndedIterator + Clone,
    I::Item: PartialEq + Clone + std::fmt::Debug,
    F: Fn() -> I,
{
    let len = full.len();
    for f in 0..=len {
        for b in 0..=(len - f) {
            for beyond in [false, true] {
                if beyond && f + b != len {
                    continue;
                }
                let at = || {
                    let mut it = mk();
                    for _ in 0..f {
                        it.next();
                    }
                    for _ in 0..b {
                        it.next_back();
                    }
                    if beyond {
                        it.next_back();
                        it.next();
                    }
                    it
                };
                let ctx = format!("after {f} calls of next() and {b} of next_back(){}", if beyond { " (and one more of each)" } else { "" });
                let rest = &full[f..len - b];
                if b > 0 || beyond {
                    if let Some(x) = proto_fwd_at(&at, rest, fuel, &ctx) {
                        return Some(x);
                    }
                }
                if let Some(x) = proto_back_at(&at, rest, fuel, &ctx) {
                    return Some(x);
                }
            }
        }
    }
    None
}

/// C09 / C10 / C02 (observer): the iterator protocol for all nine traversals from every live node.
#[allow(deprecated)]
pub fn iter_protocol(s: &State) -> Vec<Failure> {
    let mut out = Vec::new();
    let e = Expected { m: &s.model, cur: &s.cur };
    let n = s.arena.count();
    let fuel = 2 * n + 4;
    for x in s.model.live_slots() {
        let id = s.cur[x];
        let class = s.model.position(x);
        let mut report = |name: &str, de: bool, r: Result<Option<ProtoFail>, String>| match r {
            Ok(None) => {}
            Ok(Some(f)) => out.push(fail(
                C09 | if de { C10 } else { 0 } | if f.dup { C02 } else { 0 },
                "iterator-protocol", false, name, class,
                if f.dup { "provided-method-yields-a-node-again" } else { "provided-method-disagrees-with-next" },
                format!("{name}({}): {}; arena: {}", x + 1, f.why, fmt_obs(&s.obs)))),
            Err(m) => out.push(fail(C09 | if de { C10 } else { 0 }, "iterator-protocol", false, name, class, "iterator-panicked",
                format!("{name}({}): a provided method panicked: {m}", x + 1))),
        };
        let a = &s.arena;
        let mut rc = e.children(x);
        rc.reverse();
        let tr = e.traverse(x);
        let mut rtr = tr.clone();
        rtr.reverse();
        report("ancestors", false, guarded(|| proto_fwd(|| id.ancestors(a), &e.ancestors(x), fuel)));
        report("predecessors", false, guarded(|| proto_fwd(|| id.predecessors(a), &e.predecessors(x), fuel)));
        report("reverse_children", false, guarded(|| proto_fwd(|| id.reverse_children(a), &rc, fuel)));
        report("descendants", false, guarded(|| proto_fwd(|| id.descendants(a), &e.descendants(x), fuel)));
        report("traverse", false, guarded(|| proto_fwd(|| id.traverse(a), &tr, 2 * fuel)));
        report("reverse_traverse", false, guarded(|| proto_fwd(|| id.reverse_traverse(a), &rtr, 2 * fuel)));
        for (name, full) in [("children", e.children(x)), ("preceding_siblings", e.preceding(x)), ("following_siblings", e.following(x))] {
            let r = guarded(|| match name {
                "children" => proto_fwd(|| id.children(a), &full, fuel).or_else(|| proto_de(|| id.children(a), &full, fuel)),
                "preceding_siblings" => proto_fwd(|| id.preceding_siblings(a), &full, fuel).or_else(|| proto_de(|| id.preceding_siblings(a), &full, fuel)),
                _ => proto_fwd(|| id.following_siblings(a), &full, fuel).or_else(|| proto_de(|| id.following_siblings(a), &full, fuel)),
            });
            report(name, true, r);
        }
    }
    out
}

/// C10 (observer): after f front pulls and b back pulls, every way of consuming the rest agrees with
/// the remaining middle of the forward sequence: count, last, fold (for_each/sum/collect go through
/// it), rfold via rev(), nth, nth_back, size_hint.
pub fn c10_consumers(s: &State) -> Vec<Failure> {
    let mut out = Vec::new();
    let e = Expected { m: &s.model, cur: &s.cur };
    for x in s.model.live_slots() {
        let id = s.cur[x];
        let class = s.model.position(x);
        for which in 0..3 {
            let (name, fwd) = match which {
                0 => ("children", e.children(x)),
                1 => ("preceding_siblings", e.preceding(x)),
                _ => ("following_siblings", e.following(x)),
            };
            let l = fwd.len();
            let r = guarded(|| {
                let mut bad: Option<String> = None;
                'outer: for f in 0..=l {
                    for b in 0..=(l - f) {
                        let rest: Vec<NodeId> = fwd[f..l - b].to_vec();
                        let probes = match which {
                            0 => ConsumerProbe::all_at(|| id.children(&s.arena), f, b),
                            1 => ConsumerProbe::all_at(|| id.preceding_siblings(&s.arena), f, b),
                            _ => ConsumerProbe::all_at(|| id.following_siblings(&s.arena), f, b),
                        };
                        if let Some(why) = probes.disagreement(&rest) {
                            bad = Some(format!("after {f} front and {b} back pulls the rest is [{}], but {why}", ids_txt(&rest)));
                            break 'outer;
                        }
                    }
                }
                bad
            });
            if let Ok(Some(why)) = r {
                out.push(fail(C10, "double-ended", false, name, class, "consumer-disagrees-after-back-pulls",
                    format!("{name}({}): {why}; arena: {}", x + 1, fmt_obs(&s.obs))));
            }
        }
    }
    out
}

/// Results of every consuming method on one partly consumed iterator (fresh copies each).
pub struct ConsumerProbe {
    count: usize,
    last: Option<NodeId>,
    fold: Vec<NodeId>,
    rfold: Vec<NodeId>,
    for_each: Vec<NodeId>,
    clone_alt: Vec<NodeId>,
    nth: Vec<Option<NodeId>>,
    nth_back: Vec<Option<NodeId>>,
    hint: (usize, Option<usize>),
}

impl ConsumerProbe {
    pub fn all_at<I, F>(mk: F, f: usize, b: usize) -> ConsumerProbe
    where
        I: DoubleEndedIterator<Item = NodeId> + Clone,
        F: Fn() -> I,
    {
        let at = || {
            let mut it = mk();
            for _ in 0..f {
                it.next();
            }
            for _ in 0..b {
                it.next_back();
            }
            it
        };
        let mut fe = Vec::new();
        at().for_each(|x| fe.push(x));
        ConsumerProbe {
            count: at().count(),
            last: at().last(),
            fold: at().fold(Vec::new(), |mut v, x| {
                v.push(x);
                v
            }),
            rfold: at().rfold(Vec::new(), |mut v, x| {
                v.push(x);
                v
            }),
            for_each: fe,
            clone_alt: {
                // a clone taken now, pulled alternately from both ends
                let it = at();
                let mut c = it.clone();
                let mut v = Vec::new();
                for k in 0..64 {
                    match if k % 2 == 0 { c.next() } else { c.next_back() } {
                        Some(x) => v.push(x),
                        None => break,
                    }
                }
                v
            },
            nth: (0..4).map(|k| at().nth(k)).collect(),
            nth_back: (0..4).map(|k| at().nth_back(k)).collect(),
            hint: at().size_hint(),
        }
    }
    pub fn disagreement(&self, rest: &[NodeId]) -> Option<String> {
        let rev: Vec<NodeId> = rest.iter().rev().copied().collect();
        if self.count != rest.len() {
            return Some(format!("count() = {}", self.count));
        }
        if self.last != rest.last().copied() {
            return Some(format!("last() = {}", fmt_id(self.last)));
        }
        if self.fold != rest {
            return Some(format!("fold() visits [{}]", ids_txt(&self.fold)));
        }
        if self.for_each != rest {
            return Some(format!("for_each() visits [{}]", ids_txt(&self.for_each)));
        }
        {
            // alternate pulls: first, last, second, last-but-one, …
            let mut want = Vec::new();
            let (mut i, mut jx) = (0usize, rest.len());
            let mut k = 0;
            while i < jx {
                if k % 2 == 0 {
                    want.push(rest[i]);
                    i += 1;
                } else {
                    jx -= 1;
                    want.push(rest[jx]);
                }
                k += 1;
            }
            if self.clone_alt != want {
                return Some(format!("a clone pulled alternately from both ends yields [{}]", ids_txt(&self.clone_alt)));
            }
        }
        if self.rfold != rev {
            return Some(format!("rfold() visits [{}]", ids_txt(&self.rfold)));
        }
        for k in 0..4 {
            if self.nth[k] != rest.get(k).copied() {
                return Some(format!("nth({k}) = {}", fmt_id(self.nth[k])));
            }
            if self.nth_back[k] != rev.get(k).copied() {
                return Some(format!("nth_back({k}) = {}", fmt_id(self.nth_back[k])));
            }
        }
        if self.hint.0 > rest.len() || self.hint.1.map(|h| h < rest.len()).unwrap_or(false) {
            return Some(format!("size_hint() = {:?}", self.hint));
        }
        None
    }
}

pub fn c10(s: &State, pulls_counter: &mut u64) -> Vec<Failure> {
    let mut out = Vec::new();
    let e = Expected { m: &s.model, cur: &s.cur };
    for x in s.model.live_slots() {
        let id = s.cur[x];
        let class = s.model.position(x);
        for which in 0..3 {
            let (name, fwd) = match which {
                0 => ("children", e.children(x)),
                1 => ("preceding_siblings", e.preceding(x)),
                _ => ("following_siblings", e.following(x)),
            };
            let l = fwd.len();
            let plen = l + 2;
            // .rev()
            let r = guarded(|| match which {
                0 => pull(id.children(&s.arena).rev(), l + 4).0,
                1 => pull(id.preceding_siblings(&s.arena).rev(), l + 4).0,
                _ => pull(id.following_siblings(&s.arena).rev(), l + 4).0,
            });
            let mut rexp = fwd.clone();
            rexp.reverse();
            match r {
                Ok(v) if v == rexp => {}
                Ok(v) => out.push(fail(C10, "double-ended", false, name, class, "rev-not-reverse",
                    format!("{name}({}).rev() yields [{}], the forward sequence reversed is [{}]; arena: {}", x + 1, ids_txt(&v), ids_txt(&rexp), fmt_obs(&s.obs)))),
                Err(m) => out.push(fail(C10, "double-ended", false, name, class, "panicked", format!("{name}.rev() panicked: {m}"))),
            }
            for pat in 0u32..(1 << plen) {
                *pulls_counter += 1;
                let r = guarded(|| {
                    macro_rules! run {
                        ($it:expr) => {{
                            let mut it = $it;
                            let mut got = Vec::with_capacity(plen);
                            for k in 0..plen {
                                got.push(if pat >> k & 1 == 0 { it.next() } else { it.next_back() });
                            }
                            got
                        }};
                    }
                    match which {
                        0 => run!(id.children(&s.arena)),
                        1 => run!(id.preceding_siblings(&s.arena)),
                        _ => run!(id.following_siblings(&s.arena)),
                    }
                });
                let mut exp = Vec::with_capacity(plen);
                let (mut i, mut j) = (0usize, l);
                for k in 0..plen {
                    if i >= j {
                        exp.push(None);
                    } else if pat >> k & 1 == 0 {
                        exp.push(Some(fwd[i]));
                        i += 1;
                    } else {
                        j -= 1;
                        exp.push(Some(fwd[j]));
                    }
                }
                let pat_txt: String = (0..plen).map(|k| if pat >> k & 1 == 0 { 'F' } else { 'B' }).collect();
                match r {
                    Ok(got) if got == exp => {}
                    Ok(got) => {
                        let allback = pat == (1 << plen) - 1;
                        out.push(fail(C10, "double-ended", false, name, class,
                            if allback { "backward-sequence-wrong" } else { "mixed-pulls-wrong" },
                            format!("{name}({}) with pulls {pat_txt} gives {:?}, expected {:?}; arena: {}", x + 1,
                                got.iter().map(|i| fmt_id(*i)).collect::<Vec<_>>(), exp.iter().map(|i| fmt_id(*i)).collect::<Vec<_>>(), fmt_obs(&s.obs))));
                        break;
                    }
                    Err(m) => {
                        out.push(fail(C10, "double-ended", false, name, class, "panicked", format!("{name} with pulls {pat_txt} panicked: {m}")));
                        break;
                    }
                }
            }
        }
    }
    out
}

// ------------------------------------------------------------------------------------
// C11: lookups
// ------------------------------------------------------------------------------------
pub fn c11(s: &State) -> Vec<Failure> {
    let mut out = Vec::new();
    let a = &s.arena;
    let n = a.count();
    let mut f = |kind: &str, class: &str, d: String| {
        out.push(fail(C11, "lookup", false, kind, class, "disagree", d));
    };
    let r = guarded(|| {
        let mut msgs: Vec<(String, String, String)> = Vec::new();
        let mut push = |k: &str, c: &str, d: String| msgs.push((k.into(), c.into(), d));
        if a.iter().count() != n || a.as_slice().len() != n {
            push("count", "-", format!("count()={} iter().count()={} as_slice().len()={}", n, a.iter().count(), a.as_slice().len()));
        }
        if a.is_empty() != (n == 0) {
            push("is_empty", "-", format!("is_empty()={} with count()={}", a.is_empty(), n));
        }
        let mut clone = a.clone();
        for x in 0..n {
            let pos = NonZeroUsize::new(x + 1).unwrap();
            let live = s.model.is_live(x);
            let class = if live { "live" } else { "removed" };
            let at = a.get_node_id_at(pos);
            if live {
                let id = s.cur[x];
                if at != Some(id) {
                    push("get_node_id_at", class, format!("get_node_id_at({}) = {}, expected {}", x + 1, fmt_id(at), fmt_id(Some(id))));
                }
                let g = a.get(id);
                let slice_el = &a.as_slice()[x];
                let iter_el = a.iter().nth(x);
                match g {
                    None => push("get", class, format!("get({}) is None for a live id", fmt_id(Some(id)))),
                    Some(g) => {
                        if !std::ptr::eq(g, &a[id]) || !std::ptr::eq(g, slice_el) || iter_el.map(|e| std::ptr::eq(g, e)) != Some(true) {
                            push("identity", class, format!("get/Index/as_slice/iter disagree on the node of {}", fmt_id(Some(id))));
                        }
                        if a.get_node_id(g) != Some(id) {
                            push("get_node_id", class, format!("get_node_id(node of {}) = {}", fmt_id(Some(id)), fmt_id(a.get_node_id(g))));
                        }
                        if g.get().0 != s.model.payload[x] {
                            push("payload", class, format!("get({}) shows payload {}", fmt_id(Some(id)), g.get().0));
                        }
                    }
                }
                let p_mut = clone.get_mut(id).map(|r| r as *const indextree::Node<Payload>);
                let p_idx = &clone[id] as *const indextree::Node<Payload>;
                let p_idxm = {
                    use std::ops::IndexMut;
                    clone.index_mut(id) as *const indextree::Node<Payload>
                };
                if p_mut != Some(p_idx) || p_idx != p_idxm || p_idx != &clone.as_slice()[x] as *const _ {
                    push("identity-mut", class, format!("get_mut/IndexMut/Index disagree on the node of {}", fmt_id(Some(id))));
                }
                // Display gives the position under any format spec (padding aside)
                for (spec, txt) in [("{:.0}", format!("{:.0}", id)), ("{:.1}", format!("{:.1}", id)), ("{:>4}", format!("{:>4}", id)),
                    ("{:<3.1}", format!("{:<3.1}", id)), ("{:#}", format!("{:#}", id)), ("{:04}", format!("{:04}", id))] {
                    let t = txt.trim().trim_start_matches('0');
                    if t != (x + 1).to_string() {
                        push("conversions", class, format!("Display of the id in slot {} under {spec} gives {txt:?}", x + 1));
                    }
                }
                if usize::from(id) != x + 1 || NonZeroUsize::from(id).get() != x + 1 || id.to_string() != (x + 1).to_string() {
                    push("conversions", class, format!("usize/NonZeroUsize/Display of the id in slot {} give {} / {} / {}", x + 1, usize::from(id), NonZeroUsize::from(id), id));
                }
                if id.is_removed(a) {
                    push("is_removed", class, format!("{} reports is_removed", fmt_id(Some(id))));
                }
            } else if at.is_some() {
                push("get_node_id_at", class, format!("get_node_id_at({}) = {} for a removed slot", x + 1, fmt_id(at)));
            }
        }
        for pos in [n + 1, n + 2, usize::MAX] {
            let at = a.get_node_id_at(NonZeroUsize::new(pos).unwrap());
            if at.is_some() {
                push("get_node_id_at", "out-of-range", format!("get_node_id_at({pos}) = {} with count()={n}", fmt_id(at)));
            }
        }
        // foreign references and out-of-range ids
        let mut big: Arena<Payload> = Arena::new();
        let big_ids: Vec<NodeId> = (0..n + 2).map(|i| big.new_node(Payload(i as u8))).collect();
        for (i, bid) in big_ids.iter().enumerate() {
            if i >= n && a.get(*bid).is_some() {
                push("get", "out-of-range", format!("get(id at position {}) is Some with count()={n}", i + 1));
            }
            if a.get_node_id(&big[*bid]).is_some() {
                push("get_node_id", "foreign", format!("get_node_id(node of another arena) = {}", fmt_id(a.get_node_id(&big[*bid]))));
            }
        }
        for node in clone.iter() {
            if a.get_node_id(node).is_some() {
                push("get_node_id", "foreign-clone", format!("get_node_id(node of a clone) = {}", fmt_id(a.get_node_id(node))));
            }
        }
        // ... and the other way round (whichever buffer lies at the lower address is asked about the other)
        for node in a.iter() {
            if clone.get_node_id(node).is_some() || big.get_node_id(node).is_some() {
                push("get_node_id", "foreign-clone", format!("a clone / another arena asked about a node of this arena: get_node_id = {} / {}", fmt_id(clone.get_node_id(node)), fmt_id(big.get_node_id(node))));
            }
        }
        msgs
    });
    match r {
        Ok(msgs) => {
            for (k, c, d) in msgs {
                f(&k, &c, format!("{d}; arena: {}", fmt_obs(&s.obs)));
            }
        }
        Err(m) => f("any", "-", format!("a lookup panicked: {m}; arena: {}", fmt_obs(&s.obs))),
    }
    out
}

// ------------------------------------------------------------------------------------
// C12: removed slots take no part in any tree
// ------------------------------------------------------------------------------------
pub fn c12(s: &State) -> Vec<Failure> {
    let mut out = Vec::new();
    for x in s.model.removed_slots() {
        let o = &s.obs[x];
        if !o.removed {
            continue; // reported by the alpha judge
        }
        for k in 0..5 {
            if o.links[k].is_some() {
                out.push(fail(C12, "removed-links", false, obs::LINK_NAMES[k], "removed", "removed-node-reports-link",
                    format!("removed slot {} still reports {} = {}; arena: {}", x + 1, obs::LINK_NAMES[k], fmt_id(o.links[k]), fmt_obs(&s.obs))));
            }
        }
        if !s.cur[x].is_removed(&s.arena) {
            out.push(fail(C12 | C06, "removed-links", false, "is_removed", "removed", "removed-id-reports-live",
                format!("id {} of removed slot {} reports is_removed() == false", fmt_id(Some(s.cur[x])), x + 1)));
        }
    }
    // no traversal of a live node leads to a removed node
    let n = s.arena.count();
    let fuel = 2 * n + 4;
    for x in s.model.live_slots() {
        let id = s.cur[x];
        if let Ok((idits, _)) = guarded(|| (run_id_iterators(&s.arena, id, fuel), ())) {
            for (name, seq, _) in idits {
                for y in seq {
                    let sl = slot_of(y);
                    if sl >= n || !s.model.is_live(sl) || s.cur[sl] != y {
                        out.push(fail(C12, "traversal-reaches-removed", false, name, s.model.position(x), "yields-removed-or-stale-id",
                            format!("{name} from live slot {} yields {} which is not a live node; arena: {}", x + 1, fmt_id(Some(y)), fmt_obs(&s.obs))));
                    }
                }
            }
        }
    }
    out
}

// ------------------------------------------------------------------------------------
// C06: every id ever issued
// ------------------------------------------------------------------------------------
pub fn c06(s: &State) -> Vec<Failure> {
    let mut out = Vec::new();
    for (x, iss) in s.issued.iter().enumerate() {
        let live_id = if s.model.is_live(x) { Some(s.cur[x]) } else { None };
        let mut seen_dup = false;
        for id in iss.iter() {
            let want_removed = Some(id) != live_id;
            let got = guarded(|| id.is_removed(&s.arena));
            if got != Ok(want_removed) {
                out.push(fail(C06, "is_removed", false, "is_removed", if want_removed { "stale-id" } else { "live-id" },
                    if want_removed { "removed-id-reports-live" } else { "live-id-reports-removed" },
                    format!("id {} (slot {}, {} ids issued) reports is_removed() = {:?}, expected {}; current occupant {}",
                        fmt_id(Some(id)), x + 1, iss.len(), got, want_removed, fmt_id(live_id))));
                break;
            }
        }
        if iss.extra.len() >= 2 && !seen_dup {
            let mut d = iss.extra.clone();
            d.sort();
            d.dedup();
            if d.len() != iss.extra.len() {
                seen_dup = true;
                out.push(fail(C06, "fresh-id", false, "issued", "-", "id-reissued",
                    format!("slot {} issued the same id twice: {}", x + 1, ids_txt(&iss.extra))));
            }
        }
        let _ = seen_dup;
        // "different from every id handed out before" also through Ord and Hash, which must agree
        // with == (ids are kept in BTreeSets / BTreeMaps / HashMaps)
        if iss.extra.len() >= 2 {
            let v = &iss.extra;
            'pairs: for i in 0..v.len() {
                for j in (i + 1)..v.len() {
                    let (a, b) = (v[i], v[j]);
                    let ord_eq = a.cmp(&b) == std::cmp::Ordering::Equal || a.partial_cmp(&b) == Some(std::cmp::Ordering::Equal);
                    let antisym = a.cmp(&b) == b.cmp(&a).reverse();
                    if (a != b && ord_eq) || (a == b && !ord_eq) || !antisym {
                        out.push(fail(C06, "fresh-id", false, "ordering", "-", "ordering-identifies-different-ids",
                            format!("slot {}: the ids {} and {} are {} but compare as {:?} / {:?} (a BTreeSet of issued ids would {} the new one)",
                                x + 1, fmt_id(Some(a)), fmt_id(Some(b)), if a == b { "equal" } else { "different" }, a.cmp(&b), b.cmp(&a), if a != b { "reject" } else { "duplicate" })));
                        break 'pairs;
                    }
                }
            }
            let bt: std::collections::BTreeSet<NodeId> = v.iter().copied().collect();
            let hs: std::collections::HashSet<NodeId> = v.iter().copied().collect();
            if bt.len() != hs.len() {
                out.push(fail(C06, "fresh-id", false, "ordering", "-", "ordered-and-hashed-sets-disagree",
                    format!("slot {}: {} ids issued, {} distinct in a HashSet, {} in a BTreeSet", x + 1, v.len(), hs.len(), bt.len())));
            }
        }
    }
    out
}

// ------------------------------------------------------------------------------------
// C08 (state part): dropping / clearing the arena drops each live payload exactly once
// ------------------------------------------------------------------------------------
pub fn c08_final_drop(s: &State) -> Vec<Failure> {
    let mut out = Vec::new();
    let mut want = s.model.live_payloads();
    want.sort_unstable();
    for how in ["drop", "clear"] {
        let c = s.arena.clone();
        payload::ledger_arm();
        if how == "drop" {
            drop(c);
        } else {
            let mut c = c;
            c.clear();
            let after_clear = payload::ledger_take();
            payload::ledger_arm();
            drop(c);
            let after_drop = payload::ledger_take();
            if after_clear != want || !after_drop.is_empty() {
                out.push(fail(C08, "final-drop", false, "clear", "-", "payloads-not-dropped-exactly-once",
                    format!("clear() dropped {after_clear:?}, the later drop of the arena dropped {after_drop:?}; live payloads were {want:?}")));
            }
            continue;
        }
        let got = payload::ledger_take();
        if got != want {
            out.push(fail(C08, "final-drop", false, how, "-", "payloads-not-dropped-exactly-once",
                format!("dropping the arena dropped {got:?}; live payloads were {want:?}")));
        }
    }
    out
}

// ------------------------------------------------------------------------------------
// C13: values
// ------------------------------------------------------------------------------------
pub fn c13(s: &State, cfg: &JudgeCfg, product_steps: &mut u64) -> Vec<Failure> {
    let mut out = Vec::new();
    let a = &s.arena;
    let c = a.clone();
    if c != *a || obs::debug_hash(&c) != obs::debug_hash(a) {
        out.push(fail(C13, "clone", false, "clone", "-", "clone-differs", "a clone does not compare equal to its original".into()));
    }
    // clear() on a clone
    let cap0 = c.capacity();
    let mut cl = a.clone();
    let cap_before = cl.capacity();
    cl.clear();
    let fresh: Arena<Payload> = Arena::new();
    let bad = cl.count() != 0
        || !cl.is_empty()
        || cl != fresh
        || format!("{:?}", cl) != format!("{:?}", fresh)
        || cl.capacity() != cap_before;
    if bad {
        out.push(fail(C13, "clear", false, "clear", "-", "cleared-arena-not-fresh",
            format!("after clear(): count={} is_empty={} =={} capacity {}->{} debug={:?}", cl.count(), cl.is_empty(), cl == fresh, cap_before, cl.capacity(), cl)));
    }
    let _ = cap0;
    // ... also when the arena has room to spare at the time of the clear
    let mut roomy = a.clone();
    roomy.reserve(5);
    let cap_roomy = roomy.capacity();
    roomy.clear();
    if roomy.capacity() != cap_roomy {
        out.push(fail(C13, "clear", false, "clear", "-", "clear-does-not-keep-capacity",
            format!("clear() of an arena with count {} and capacity {} leaves capacity {}", a.count(), cap_roomy, roomy.capacity())));
    }
    // two arenas with the same history answer the same question alike (whichever of them the allocator
    // placed at the lower address): each asked about the other's nodes
    if a.count() > 0 {
        let r1 = guarded(|| c.iter().map(|n| a.get_node_id(n)).collect::<Vec<_>>());
        let r2 = guarded(|| a.iter().map(|n| c.get_node_id(n)).collect::<Vec<_>>());
        if r1 != r2 || r1.as_ref().map(|v| v.iter().any(|x| x.is_some())).unwrap_or(true) {
            out.push(fail(C13 | C11, "clone", false, "get_node_id", "-", "twin-arenas-answer-differently",
                format!("an arena asked for the ids of its clone's nodes answers {:?}; the clone asked about the original's nodes answers {:?}",
                    r1.map(|v| v.iter().map(|i| fmt_id(*i)).collect::<Vec<_>>()), r2.map(|v| v.iter().map(|i| fmt_id(*i)).collect::<Vec<_>>()))));
        }
    }
    // original untouched by what happened to the clone
    if obs::debug_hash(a) != obs::debug_hash(&s.arena) {
        unreachable!();
    }
    // lock-step product exploration of (cleared, fresh)
    if !bad && cfg.clear_depth > 0 && !s.model.removed_slots().is_empty() || (!bad && s.arena.count() > 0 && cfg.clear_depth > 0) {
        let s1 = State::initial(cl);
        let s2 = State::initial(fresh);
        product(&s1, &s2, cfg.clear_depth, &mut out, product_steps, &mut Vec::new());
    }
    out
}

fn product(s1: &State, s2: &State, depth: usize, out: &mut Vec<Failure>, steps: &mut u64, path: &mut Vec<Op>) {
    if depth == 0 || !out.is_empty() {
        return;
    }
    let prof = crate::explore::Profile::default();
    let ops = enabled_ops(s1, 3, 4, &prof);
    let jc = JudgeCfg::default();
    for op in ops {
        *steps += 1;
        let r1 = step(s1, op, &jc);
        let r2 = step(s2, op, &jc);
        let (n1, n2) = match (r1.next, r2.next) {
            (Some(a), Some(b)) => (a, b),
            _ => continue,
        };
        path.push(op);
        if r1.outcome.digest_form() != r2.outcome.digest_form() || n1.arena != n2.arena || obs::debug_hash(&n1.arena) != obs::debug_hash(&n2.arena) {
            out.push(fail(C13, "clear", false, "clear-then-continue", "-", "cleared-arena-behaves-differently",
                format!("after clear(), the calls {:?} give {} on the cleared arena and {} on a new one",
                    path.iter().map(|o| o.text()).collect::<Vec<_>>(), r1.outcome.short(), r2.outcome.short())));
            path.pop();
            return;
        }
        if r1.failures.iter().all(|f| !f.shaping) {
            product(&n1, &n2, depth - 1, out, steps, path);
        }
        path.pop();
    }
}

// ------------------------------------------------------------------------------------
// C16: serde round trip (feature it-deser)
// ------------------------------------------------------------------------------------
#[cfg(feature = "it-deser")]
pub fn c16_roundtrip(s: &State) -> Result<Arena<Payload>, Failure> {
    let a = &s.arena;
    let js = serde_json::to_string(a).map_err(|e| {
        fail(C16, "serde", false, "serialize", "-", "serialize-failed", format!("serde_json::to_string failed: {e}"))
    })?;
    let b: Arena<Payload> = serde_json::from_str(&js).map_err(|e| {
        fail(C16, "serde", false, "deserialize", "-", "deserialize-failed", format!("serde_json::from_str failed: {e}; text: {js}"))
    })?;
    if b != *a || format!("{:?}", b) != format!("{:?}", a) {
        return Err(fail(C16, "serde", false, "roundtrip", "-", "copy-differs",
            format!("round-tripped arena differs: original {:?}, copy {:?}", a, b)));
    }
    // non-borrowing entry points of the same format: through serde_json::Value and through a reader
    let via_value: Result<Arena<Payload>, String> = serde_json::to_value(a)
        .map_err(|e| e.to_string())
        .and_then(|v| serde_json::from_value(v).map_err(|e| e.to_string()));
    let via_reader: Result<Arena<Payload>, String> = serde_json::from_reader(js.as_bytes()).map_err(|e| e.to_string());
    for (how, r) in [("to_value/from_value", via_value), ("from_reader", via_reader)] {
        match r {
            Ok(c) if c == *a && format!("{:?}", c) == format!("{:?}", a) => {}
            Ok(c) => return Err(fail(C16, "serde", false, "roundtrip-other-entry-point", "-", "copy-differs",
                format!("round trip through {how} differs: original {:?}, copy {:?}", a, c))),
            Err(e) => return Err(fail(C16, "serde", false, "roundtrip-other-entry-point", "-", "deserialize-failed",
                format!("round trip through {how} failed: {e}; text: {js}"))),
        }
    }
    // the arena as part of the caller's own types (JSON): a field among others, a flattened field (serde
    // routes the entries by the field names the Deserialize impl declares), the three enum taggings that
    // buffer the content, Option, tuple, map value
    if let Some((how, why)) = embedded_roundtrips(a) {
        return Err(fail(C16, "serde", false, "roundtrip-embedded", "-", "copy-differs", format!("round trip of the arena {how}: {why}")));
    }
    // second format: the token stream (non-self-describing, sequence-based)
    match crate::tokens::roundtrip(a) {
        Ok(c) => {
            if c != *a || format!("{:?}", c) != format!("{:?}", a) {
                return Err(fail(C16, "serde", false, "roundtrip-tokens", "-", "copy-differs",
                    format!("round trip through the token format differs: original {:?}, copy {:?}", a, c)));
            }
        }
        Err(e) => {
            return Err(fail(C16, "serde", false, "roundtrip-tokens", "-", "token-roundtrip-failed", e));
        }
    }
    // ... and in its binary flavour (is_human_readable() == false)
    match crate::tokens::roundtrip_binary(a) {
        Ok(c) => {
            if c != *a || format!("{:?}", c) != format!("{:?}", a) {
                return Err(fail(C16, "serde", false, "roundtrip-tokens-binary", "-", "copy-differs",
                    format!("round trip through the token format as a non-human-readable format differs: original {:?}, copy {:?}", a, c)));
            }
        }
        Err(e) => {
            return Err(fail(C16, "serde", false, "roundtrip-tokens-binary", "-", "token-roundtrip-failed", e));
        }
    }
    Ok(b)
}

#[cfg(feature = "it-deser")]
fn embedded_roundtrips(a0: &Arena<Payload>) -> Option<(&'static str, String)> {
    use serde::{de::DeserializeOwned, Deserialize, Serialize};
    /// The exploration's payload encodes itself as a map with an integer key and a u128 value, which serde's
    /// own buffering (flatten, tagged enums) cannot carry for *any* container — a limitation of the payload's
    /// encoding, not of the arena. The embedded probes therefore use the same arena with a payload that
    /// encodes as a plain number; it is obtained through the library's own (de)serialisation, reading the
    /// rich encoding.
    #[derive(Clone, PartialEq, Debug, Serialize)]
    struct Plain(u32);
    impl<'de> Deserialize<'de> for Plain {
        fn deserialize<D: serde::Deserializer<'de>>(d: D) -> Result<Self, D::Error> {
            struct V;
            impl<'de> serde::de::Visitor<'de> for V {
                type Value = Plain;
                fn expecting(&self, f: &mut std::fmt::Formatter) -> std::fmt::Result {
                    f.write_str("a number, nothing, or the rich payload map")
                }
                fn visit_u64<E>(self, v: u64) -> Result<Plain, E> {
                    Ok(Plain(v as u32))
                }
                fn visit_none<E>(self) -> Result<Plain, E> {
                    Ok(Plain(0))
                }
                fn visit_unit<E>(self) -> Result<Plain, E> {
                    Ok(Plain(0))
                }
                fn visit_some<D2: serde::Deserializer<'de>>(self, d: D2) -> Result<Plain, D2::Error> {
                    d.deserialize_any(V)
                }
                fn visit_map<M: serde::de::MapAccess<'de>>(self, mut m: M) -> Result<Plain, M::Error> {
                    let (k, _): (u32, u128) = m.next_entry()?.ok_or_else(|| serde::de::Error::custom("empty payload map"))?;
                    Ok(Plain(k))
                }
            }
            d.deserialize_any(V)
        }
    }
    // (if this conversion does not work the plain round trips above report why; nothing is claimed here)
    let a: Arena<Plain> = serde_json::to_value(a0).ok().and_then(|v| serde_json::from_value(v).ok())?;
    let a = &a;
    #[derive(Serialize, Deserialize)]
    struct Field {
        before: u8,
        arena: Arena<Plain>,
        after: Vec<Arena<Plain>>,
    }
    #[derive(Serialize, Deserialize)]
    struct Flat {
        label: String,
        #[serde(flatten)]
        arena: Arena<Plain>,
        trailer: u8,
    }
    #[derive(Serialize, Deserialize)]
    #[serde(tag = "kind")]
    enum Internal {
        Forest(Arena<Plain>),
    }
    #[derive(Serialize, Deserialize)]
    #[serde(tag = "kind", content = "body")]
    enum Adjacent {
        Forest(Arena<Plain>),
    }
    #[derive(Serialize, Deserialize)]
    #[serde(untagged)]
    enum Untagged {
        Number(u64),
        Forest(Arena<Plain>),
    }
    fn rt<W: Serialize + DeserializeOwned>(w: &W) -> Result<W, String> {
        let js = serde_json::to_string(w).map_err(|e| format!("serialising failed: {e}"))?;
        serde_json::from_str(&js).map_err(|e| format!("deserialising failed: {e}; text: {js}"))
    }
    let same = |c: &Arena<Plain>| c == a && format!("{:?}", c) == format!("{:?}", a);
    let diff = |c: &Arena<Plain>| format!("copy differs: original {:?}, copy {:?}", a, c);
    macro_rules! probe {
        ($how:expr, $w:expr, $get:expr) => {
            match rt(&$w) {
                Ok(w) => {
                    let get = $get;
                    let copies: Vec<Arena<Plain>> = get(&w);
                    for c in &copies {
                        if !same(c) {
                            return Some(($how, diff(c)));
                        }
                    }
                }
                Err(e) => return Some(($how, e)),
            }
        };
    }
    probe!("as a field of a struct", Field { before: 1, arena: a.clone(), after: vec![a.clone(), a.clone()] }, |w: &Field| vec![w.arena.clone(), w.after[0].clone(), w.after[1].clone()]);
    probe!("as a #[serde(flatten)] field", Flat { label: "x".into(), arena: a.clone(), trailer: 7 }, |w: &Flat| vec![w.arena.clone()]);
    probe!("in an internally tagged enum", Internal::Forest(a.clone()), |w: &Internal| { let Internal::Forest(c) = w; vec![c.clone()] });
    probe!("in an adjacently tagged enum", Adjacent::Forest(a.clone()), |w: &Adjacent| { let Adjacent::Forest(c) = w; vec![c.clone()] });
    probe!("in an untagged enum", Untagged::Forest(a.clone()), |w: &Untagged| match w { Untagged::Forest(c) => vec![c.clone()], Untagged::Number(_) => vec![Arena::new(); usize::from(a.count() > 0)] });
    probe!("in an Option and a tuple", (Some(a.clone()), 5u8, a.clone()), |w: &(Option<Arena<Plain>>, u8, Arena<Plain>)| vec![w.0.clone().unwrap_or_default(), w.2.clone()]);
    probe!("as a map value", std::collections::BTreeMap::from([("k".to_string(), a.clone())]), |w: &std::collections::BTreeMap<String, Arena<Plain>>| w.values().cloned().collect::<Vec<_>>());
    None
}

#[cfg(feature = "it-deser")]
pub fn c16(s: &State, lockstep: &mut u64, profile: &crate::explore::Profile, n_max: usize, a_max: usize) -> Vec<Failure> {
    let mut out = Vec::new();
    let copy = match guarded(|| c16_roundtrip(s)) {
        Ok(Ok(c)) => c,
        Ok(Err(f)) => return vec![f],
        Err(m) => return vec![fail(C16, "serde", false, "roundtrip", "-", "panicked", format!("round trip panicked: {m}"))],
    };
    // is_removed agrees for every id ever issued
    for iss in &s.issued {
        for id in iss.iter() {
            if guarded(|| id.is_removed(&copy)).ok() != Some(id.is_removed(&s.arena)) {
                out.push(fail(C16, "serde", false, "is_removed", "-", "is_removed-differs", format!("is_removed({}) differs on the copy", fmt_id(Some(id)))));
            }
        }
    }
    // one-step lock-step: the inductive step of "behaves identically under further calls"
    let mut s2 = s.clone();
    s2.arena = copy;
    let jc = JudgeCfg::default();
    for op in enabled_ops(s, n_max, a_max, profile) {
        *lockstep += 1;
        let r1 = step(s, op, &jc);
        let r2 = step(&s2, op, &jc);
        let same = match (&r1.next, &r2.next) {
            (Some(a), Some(b)) => a.arena == b.arena && a.key == b.key,
            (None, None) => true,
            _ => false,
        };
        if !same || r1.outcome != r2.outcome {
            out.push(fail(C16, "serde", false, "continue", op.kind(), "copy-behaves-differently",
                format!("{} gives {} on the original and {} on the round-tripped copy", op.text(), r1.outcome.short(), r2.outcome.short())));
            break;
        }
    }
    out
}

#[cfg(not(feature = "it-deser"))]
pub fn c16(_: &State, _: &mut u64, _: &crate::explore::Profile, _: usize, _: usize) -> Vec<Failure> {
    panic!("machinery error: C16 needs the engine built with feature it-deser");
}

/// Observations folded into the digest stream for configuration comparison (C17):
/// iterator outputs, pretty printing and conversions for every live node.
pub fn rich_observation(s: &State) -> u64 {
    let n = s.arena.count();
    let fuel = 2 * n + 4;
    let mut acc: Vec<String> = Vec::new();
    for x in s.model.live_slots() {
        let id = s.cur[x];
        let r = guarded(|| {
            let mut t = String::new();
            for (name, seq, o) in run_id_iterators(&s.arena, id, fuel) {
                t.push_str(&format!("{name}:{}:{o};", ids_txt(&seq)));
            }
            for (name, seq, o) in run_edge_iterators(&s.arena, id, fuel) {
                t.push_str(&format!("{name}:{}:{o};", edges_txt(&seq)));
            }
            t.push_str(&format!("{}|{:#}|{:?}|{:#?}|{}|{}", id.debug_pretty_print(&s.arena), id.debug_pretty_print(&s.arena),
                id.debug_pretty_print(&s.arena), id.debug_pretty_print(&s.arena), id, s.arena[id]));
            // the same renderings under width / precision / fill / alignment / sign flags
            let (n, p) = (&s.arena[id], id.debug_pretty_print(&s.arena));
            t.push_str(&format!("|{:.12}|{:90}|{:.0}|{:*^70}|{:>5}|{:<4}|{:03}|{:+}|{:.3}|{:30}|{:#.8?}|{:?}|{:#?}",
                n, n, n, n, id, id, id, id, p, p, p, id, NodeEdge::Start(id)));
            t
        });
        acc.push(match r {
            Ok(t) => t,
            Err(_) => "panic".into(),
        });
    }
    obs::hash64(&acc)
}

/// C17/C18: par_iter() visits exactly the nodes of iter() (same references, same order),
/// in dedicated rayon pools of 1, 2 and 16 threads.
#[cfg(not(feature = "it-par"))]
pub fn c17_par(_: &State) -> Vec<Failure> {
    Vec::new()
}

/// The same on an arena big enough for rayon to split the slice (100 000 slots, every third removed).
pub fn c17_par_big() -> Vec<Failure> {
    let mut a: Arena<Payload> = Arena::new();
    let ids: Vec<NodeId> = (0..100_000usize).map(|i| a.new_node(Payload((i % 251) as u8))).collect();
    for id in ids.iter().step_by(3) {
        id.remove(&mut a);
    }
    c17_par_arena(&a)
}

#[cfg(not(feature = "it-par"))]
pub fn c17_par_arena(_: &Arena<Payload>) -> Vec<Failure> {
    Vec::new()
}

#[cfg(feature = "it-par")]
pub fn c17_par(s: &State) -> Vec<Failure> {
    c17_par_arena(&s.arena)
}

#[cfg(feature = "it-par")]
pub fn c17_par_arena(arena: &Arena<Payload>) -> Vec<Failure> {
    struct S<'a> {
        arena: &'a Arena<Payload>,
    }
    let s = S { arena };
    use rayon::prelude::*;
    use std::sync::OnceLock;
    static POOLS: OnceLock<Vec<rayon::ThreadPool>> = OnceLock::new();
    let pools = POOLS.get_or_init(|| {
        [1usize, 2, 16]
            .iter()
            .map(|&n| rayon::ThreadPoolBuilder::new().num_threads(n).build().expect("rayon pool"))
            .collect()
    });
    let mut out = Vec::new();
    let seq: Vec<usize> = s.arena.iter().map(|n| n as *const _ as usize).collect();
    for (i, pool) in pools.iter().enumerate() {
        let r = guarded(|| {
            let par: Vec<usize> = pool.install(|| s.arena.par_iter().map(|n| n as *const _ as usize).collect());
            let cnt = pool.install(|| s.arena.par_iter().count());
            let live = pool.install(|| s.arena.par_iter().filter(|n| !n.is_removed()).count());
            (par, cnt, live)
        });
        let live_seq = s.arena.iter().filter(|n| !n.is_removed()).count();
        match r {
            Ok((par, cnt, live)) if par == seq && cnt == seq.len() && live == live_seq => {}
            Ok((par, cnt, _)) => out.push(fail(C17 | C18, "par_iter", false, "par_iter", "-", "differs-from-iter",
                format!("par_iter() in a pool of {} thread(s) visits {} nodes ({} by count()), iter() visits {}; same references in the same order: {}", [1, 2, 16][i], par.len(), cnt, seq.len(), par == seq))),
            Err(m) => out.push(fail(C17 | C18, "par_iter", false, "par_iter", "-", "panicked", format!("par_iter panicked: {m}"))),
        }
    }
    // a reader gives the same answers inside a par_iter closure (on a pool worker, beside other workers) as
    // on the calling thread: every reader script from the node it was handed, get_node_id of that node, of
    // the nodes of another (equal) arena and of a copy of the node on the worker's own stack
    let other = s.arena.clone();
    let observe = |n: &indextree::Node<Payload>| -> u64 {
        let id = s.arena.get_node_id(n);
        let foreign: Vec<Option<NodeId>> = other.iter().take(6).chain(other.iter().rev().take(2)).map(|m| s.arena.get_node_id(m)).collect();
        let on_stack = n.clone();
        let mut t = format!("{:?}|{:?}|{:?}", id, foreign, s.arena.get_node_id(&on_stack));
        if let Some(id) = id {
            if !n.is_removed() {
                // (the accessor and lookup scripts; the traversal scripts are the business of the
                // interleaving exploration)
                for kind in [9usize, 11] {
                    t.push_str(&format!("{:?}", crate::readers::solo(s.arena, kind, id, 6)));
                }
            }
        }
        obs::hash64(&t)
    };
    match guarded(|| s.arena.iter().map(observe).collect::<Vec<u64>>()) {
        Err(m) => out.push(fail(C11 | C18, "par_iter", false, "readers", "-", "panicked", format!("a reader on the calling thread panicked: {m}"))),
        Ok(seq) => {
            for (i, pool) in pools.iter().enumerate() {
                let r = guarded(|| {
                    let par: Vec<u64> = pool.install(|| s.arena.par_iter().map(observe).collect());
                    let (a, b) = pool.install(|| rayon::join(|| s.arena.iter().map(observe).collect::<Vec<u64>>(), || s.arena.iter().rev().map(observe).collect::<Vec<u64>>()));
                    (par, a, b)
                });
                match r {
                    Ok((par, a, mut b)) => {
                        b.reverse();
                        if par != seq || a != seq || b != seq {
                            out.push(fail(C17 | C18, "par_iter", false, "readers-in-par_iter", "-", "worker-observes-something-else",
                                format!("readers run inside par_iter closures / rayon::join in a pool of {} thread(s) observe something else than on the calling thread (par_iter equal: {}, join equal: {} / {}); arena {:?}", [1, 2, 16][i], par == seq, a == seq, b == seq, s.arena)));
                        }
                    }
                    Err(m) => out.push(fail(C17 | C18, "par_iter", false, "readers-in-par_iter", "-", "panicked",
                        format!("a reader that returns on the calling thread panicked inside a par_iter closure / rayon::join in a pool of {} thread(s): {m}; arena {:?}", [1, 2, 16][i], s.arena))),
                }
            }
        }
    }
    out
}

/// Observers that depend only on which nodes are live by the history of calls (not on the
/// shape of the forest): usable on a successor whose links the model cannot vouch for.
pub fn liveness_observers(s: &State, target: Props) -> Vec<Failure> {
    let mut out = Vec::new();
    if s.obs.len() != s.model.count() || s.cur.len() != s.model.count() {
        return out;
    }
    if target & C06 != 0 {
        out.extend(c06(s));
    }
    if target & C07 != 0 {
        // which slots are free is decided by the history of removals, not by the shape
        out.extend(drain(s, 10_000));
    }
    if target & C11 != 0 {
        out.extend(c11(s));
    }
    if target & C12 != 0 {
        for x in s.model.removed_slots() {
            let o = &s.obs[x];
            for k in 0..5 {
                if o.removed && o.links[k].is_some() {
                    out.push(fail(C12, "removed-links", false, obs::LINK_NAMES[k], "removed", "removed-node-reports-link",
                        format!("removed slot {} still reports {} = {}; arena: {}", x + 1, obs::LINK_NAMES[k], fmt_id(o.links[k]), fmt_obs(&s.obs))));
                }
            }
        }
    }
    out
}

/// C11 / C08 over payload *types*: the lookups do not depend on what the payload type looks like
/// (zero-sized, over-aligned, huge, heap-owning, niche-carrying). One small forest per type, with a
/// removed and a recycled slot; a clone as the foreign arena.
pub fn payload_types() -> Vec<Failure> {
    fn battery<T: Clone + PartialEq + std::fmt::Debug>(name: &str, mk: impl Fn(usize) -> T, out: &mut Vec<Failure>) {
        let r = guarded(|| {
            let mut msgs: Vec<(Props, String)> = Vec::new();
            let mut a: Arena<T> = Arena::new();
            let root = a.new_node(mk(0));
            let mut ids = vec![root];
            for i in 1..7 {
                let id = if i % 2 == 1 { ids[(i - 1) / 2].append_value(mk(i), &mut a) } else { a.new_node(mk(i)) };
                ids.push(id);
            }
            ids[3].remove(&mut a);
            ids[5].remove_subtree(&mut a);
            let re = a.new_node(mk(33));
            ids[usize::from(re) - 1] = re;
            let vals: Vec<usize> = (0..7).map(|i| if usize::from(re) - 1 == i { 33 } else { i }).collect();
            let other = a.clone();
            for (i, id) in ids.iter().enumerate() {
                let pos = NonZeroUsize::new(i + 1).unwrap();
                if id.is_removed(&a) {
                    if a.get_node_id_at(pos).is_some() {
                        msgs.push((C11, format!("get_node_id_at({}) is Some for a removed slot", i + 1)));
                    }
                    continue;
                }
                let node = &a[*id];
                if a.get_node_id(node) != Some(*id) || a.get_node_id_at(pos) != Some(*id) || a.get(*id).map(|n| n as *const _) != Some(node as *const _)
                    || !std::ptr::eq(node, &a.as_slice()[i]) || usize::from(*id) != i + 1
                {
                    msgs.push((C11, format!("lookups disagree for the live node in slot {}: get_node_id = {:?}, get_node_id_at = {:?}", i + 1, a.get_node_id(node), a.get_node_id_at(pos))));
                }
                if *node.get() != mk(vals[i]) {
                    msgs.push((C08, format!("the node in slot {} holds {:?}, stored {:?}", i + 1, node.get(), mk(vals[i]))));
                }
                if a.get_node_id(&other[*id]).is_some() || other.get_node_id(node).is_some() {
                    msgs.push((C11, format!("get_node_id answers Some for a node of another arena (slot {})", i + 1)));
                }
            }
            if a.count() != 7 || a.iter().count() != 7 || a.as_slice().len() != 7 {
                msgs.push((C11, "count(), iter().count() and as_slice().len() disagree".into()));
            }
            msgs
        });
        match r {
            Ok(msgs) => {
                for (p, m) in msgs {
                    out.push(fail(p, "payload-types", false, name, "-", "lookup-depends-on-payload-type", format!("Arena<{name}>: {m}")));
                }
            }
            Err(m) => out.push(fail(C11 | C08, "payload-types", false, name, "-", "panicked", format!("Arena<{name}>: the battery panicked: {m}"))),
        }
    }
    #[derive(Clone, PartialEq, Debug)]
    #[repr(align(128))]
    struct Aligned(u8);
    #[derive(Clone, PartialEq, Debug)]
    struct Big([u8; 4096]);
    #[derive(Clone, PartialEq, Debug)]
    struct Unit;
    let mut out = Vec::new();
    battery("()", |_| (), &mut out);
    battery("Unit", |_| Unit, &mut out);
    battery("[u64; 0]", |_| [0u64; 0], &mut out);
    battery("PhantomData<String>", |_| std::marker::PhantomData::<String>, &mut out);
    battery("u8", |i| i as u8, &mut out);
    battery("Aligned(128)", |i| Aligned(i as u8), &mut out);
    battery("Big(4096 bytes)", |i| Big([i as u8; 4096]), &mut out);
    battery("String", |i| format!("payload {i}"), &mut out);
    battery("Box<u32>", |i| Box::new(i as u32), &mut out);
    battery("Option<NonZeroU8>", |i| std::num::NonZeroU8::new(i as u8), &mut out);
    battery("(u64, Vec<u16>)", |i| (i as u64, vec![i as u16; i]), &mut out);
    out
}

/// C08 (tree!): every payload the literal constructs is dropped exactly once also when the literal is
/// left early — the arena expression panics or returns (`?`), a node expression panics half-way.
#[cfg(feature = "it-macros")]
pub fn tree_left_early() -> Vec<Failure> {
    use indextree::macros::tree;
    use std::cell::Cell;
    let mut out = Vec::new();
    let mut case = |name: &str, run: &dyn Fn(&Cell<Vec<u8>>)| {
        let created: Cell<Vec<u8>> = Cell::new(Vec::new());
        crate::payload::ledger_arm();
        let _ = guarded(|| run(&created));
        let mut dropped = crate::payload::ledger_take();
        let mut made = created.take();
        dropped.sort_unstable();
        made.sort_unstable();
        if dropped != made {
            out.push(fail(C08, "tree-left-early", false, name, "-", "payload-not-dropped-exactly-once",
                format!("tree! left early ({name}): payloads constructed {:?}, payloads dropped {:?}", made, dropped)));
        }
    };
    fn mk(c: &Cell<Vec<u8>>, v: u8) -> Payload {
        let mut x = c.take();
        x.push(v);
        c.set(x);
        Payload(v)
    }
    case("the arena expression panics", &|c| {
        let mut a: Arena<Payload> = Arena::new();
        let go = true;
        let _ = tree!({ if go { panic!("arena expression panics") }; &mut a }, mk(c, 9) => { mk(c, 10), mk(c, 11) });
    });
    case("the arena expression returns early", &|c| {
        fn f(slot: Option<&mut Arena<Payload>>, c: &Cell<Vec<u8>>) -> Option<NodeId> {
            Some(tree!(slot?, mk(c, 9) => { mk(c, 10) }))
        }
        let _ = f(None, c);
    });
    case("a node expression panics", &|c| {
        let mut a: Arena<Payload> = Arena::new();
        let go = true;
        let _ = tree!(&mut a, mk(c, 9) => { mk(c, 10), { if go { panic!("node expression panics") }; mk(c, 11) }, mk(c, 12) });
    });
    case("the root expression panics", &|c| {
        let mut a: Arena<Payload> = Arena::new();
        let go = true;
        let _ = tree!(&mut a, { if go { panic!("root expression panics") }; mk(c, 9) } => { mk(c, 10) });
    });
    case("nothing goes wrong", &|c| {
        let mut a: Arena<Payload> = Arena::new();
        let _ = tree!(&mut a, mk(c, 9) => { mk(c, 10), mk(c, 11) => { mk(c, 12) } });
    });
    out
}

#[cfg(not(feature = "it-macros"))]
pub fn tree_left_early() -> Vec<Failure> {
    Vec::new()
}

/// C12, model-free: a slot the arena itself reports removed reports no link.
pub fn removed_links(obs: &[SlotObs]) -> Vec<Failure> {
    let mut out = Vec::new();
    for (x, o) in obs.iter().enumerate() {
        for k in 0..5 {
            if o.removed && o.links[k].is_some() {
                out.push(fail(C12, "removed-links", false, obs::LINK_NAMES[k], "removed", "removed-node-reports-link",
                    format!("removed slot {} still reports {} = {}; arena: {}", x + 1, obs::LINK_NAMES[k], fmt_id(o.links[k]), fmt_obs(obs))));
            }
        }
    }
    out
}

pub struct StateJudgeCounters {
    pub pulls: u64,
    pub product_steps: u64,
    pub lockstep: u64,
}

/// All state judges relevant for `cfg.target` (shaping ones always).
pub fn judge_state(
    s: &State,
    cfg: &JudgeCfg,
    profile: &crate::explore::Profile,
    n_max: usize,
    a_max: usize,
    ctr: &mut StateJudgeCounters,
) -> Vec<Failure> {
    let mut out = Vec::new();
    out.extend(j01(&s.arena, &s.obs));
    out.extend(j02(&s.obs));
    let structurally_bad = !out.is_empty();
    // lenient mode: link inconsistencies (no cycles) do not stop the history-based judges
    let only_linkish = out.iter().all(is_linkish);
    if !structurally_bad || (cfg.lenient_links && only_linkish) {
        out.extend(drain(s, cfg.retire_min));
    }
    if structurally_bad {
        if cfg.lenient_links && only_linkish {
            let t = cfg.target;
            if t & C06 != 0 {
                out.extend(c06(s));
            }
            if t & C08 != 0 && cfg.ledger {
                out.extend(c08_final_drop(s));
            }
            if t & C11 != 0 {
                out.extend(c11(s));
            }
        }
        return out;
    }
    let t = cfg.target;
    if t & C02 != 0 {
        out.extend(c02_iterators(s));
        out.extend(c02_mixed_pulls(s));
    }
    if t & (C02 | C09 | C10) != 0 && out.is_empty() {
        out.extend(iter_protocol(s));
    }
    if t & C06 != 0 {
        out.extend(c06(s));
    }
    if t & C08 != 0 && cfg.ledger {
        out.extend(c08_final_drop(s));
    }
    if t & C09 != 0 {
        out.extend(c09(s));
        out.extend(c09_nothing_more(s));
        out.extend(c09_clone_resume(s));
    }
    if t & C10 != 0 {
        out.extend(c10(s, &mut ctr.pulls));
        out.extend(c10_consumers(s));
    }
    if t & C11 != 0 {
        out.extend(c11(s));
    }
    if t & C12 != 0 {
        out.extend(c12(s));
    }
    if t & C13 != 0 {
        out.extend(c13(s, cfg, &mut ctr.product_steps));
    }
    if t & C16 != 0 {
        out.extend(c16(s, &mut ctr.lockstep, profile, n_max, a_max));
    }
    #[cfg(feature = "it-deser")]
    if t & C17 != 0 {
        // a build with `deser` must hold the same arena after a round trip as every build holds without one
        if let Ok(Err(mut f)) = guarded(|| c16_roundtrip(s)) {
            f.props |= C17;
            out.push(f);
        }
    }
    // c17_par is evaluated by the explorer on its main thread: calling into another rayon pool
    // from a worker of this pool makes the worker run other tasks while it waits (unbounded nesting)
    let _ = (Outcome::Unit, ops::Op::NewNode);
    out
}

/// Counters narrower than usize (nesting depth, sibling count): a chain `n` deep and a node `n`
/// wide, built with plain API calls and traversed by every iterator; expectations are arithmetic.
#[allow(deprecated)]
pub fn deep_shapes(n: usize) -> Vec<Failure> {
    let mut out = Vec::new();
    let mut bad = |what: &str, detail: String| {
        out.push(fail(C09 | C02, "deep-shapes", false, what, "-", "wrong-length-or-order", detail));
    };
    let r = guarded(|| {
        let mut msgs: Vec<(String, String)> = Vec::new();
        // ---- chain: 0 <- 1 <- 2 ... (each the only child of the previous)
        let mut a: Arena<u32> = Arena::new();
        let root = a.new_node(0);
        let mut ids = vec![root];
        for k in 1..n {
            let c = ids[k - 1].append_value(k as u32, &mut a);
            ids.push(c);
        }
        let leaf = *ids.last().unwrap();
        let cnt = |x: usize, want: usize, what: &str, msgs: &mut Vec<(String, String)>| {
            if x != want {
                msgs.push((what.to_string(), format!("{what} on a chain of depth {n} yields {x} items, expected {want}")));
            }
        };
        cnt(root.descendants(&a).count(), n, "descendants(root)", &mut msgs);
        cnt(root.traverse(&a).count(), 2 * n, "traverse(root)", &mut msgs);
        cnt(root.reverse_traverse(&a).count(), 2 * n, "reverse_traverse(root)", &mut msgs);
        cnt(leaf.ancestors(&a).count(), n, "ancestors(leaf)", &mut msgs);
        cnt(leaf.predecessors(&a).count(), n, "predecessors(leaf)", &mut msgs);
        if root.descendants(&a).last() != Some(leaf) || root.descendants(&a).nth(n / 2) != Some(ids[n / 2]) {
            msgs.push(("descendants(root)".into(), format!("descendants on a chain of depth {n} does not end at the leaf / pass the middle node")));
        }
        // balanced Start/End and agreement with edge stepping
        let mut depth = 0i64;
        let mut maxd = 0i64;
        let mut e = Some(NodeEdge::Start(root));
        let mut steps = 0usize;
        for edge in root.traverse(&a) {
            if Some(edge) != e {
                msgs.push(("traverse(root)".into(), format!("traverse and next_traverse stepping disagree at step {steps} on a chain of depth {n}")));
                break;
            }
            match edge {
                NodeEdge::Start(_) => depth += 1,
                NodeEdge::End(_) => depth -= 1,
            }
            maxd = maxd.max(depth);
            steps += 1;
            e = edge.next_traverse(&a);
        }
        if depth != 0 || maxd != n as i64 {
            msgs.push(("traverse(root)".into(), format!("traverse on a chain of depth {n}: {steps} edges, final nesting {depth}, maximal nesting {maxd}")));
        }
        // a middle start node stays inside its subtree
        let mid = ids[n / 2];
        cnt(mid.descendants(&a).count(), n - n / 2, "descendants(middle)", &mut msgs);
        // ---- wide: one parent, n children
        let mut w: Arena<u32> = Arena::new();
        let p = w.new_node(0);
        let mut kids = Vec::new();
        for k in 0..n {
            kids.push(p.append_value(k as u32 + 1, &mut w));
        }
        cnt(p.children(&w).count(), n, "children(parent)", &mut msgs);
        cnt(p.children(&w).rev().count(), n, "children(parent).rev()", &mut msgs);
        cnt(p.reverse_children(&w).count(), n, "reverse_children(parent)", &mut msgs);
        cnt(kids[0].following_siblings(&w).count(), n, "following_siblings(first)", &mut msgs);
        cnt(kids[n - 1].preceding_siblings(&w).count(), n, "preceding_siblings(last)", &mut msgs);
        cnt(kids[0].following_siblings(&w).rev().count(), n, "following_siblings(first).rev()", &mut msgs);
        cnt(p.descendants(&w).count(), n + 1, "descendants(parent)", &mut msgs);
        cnt(p.traverse(&w).count(), 2 * n + 2, "traverse(parent)", &mut msgs);
        if p.children(&w).last() != Some(kids[n - 1]) || p.children(&w).nth(n - 2) != Some(kids[n - 2]) || p.children(&w).next_back() != Some(kids[n - 1]) {
            msgs.push(("children(parent)".into(), format!("children of a node with {n} children: last/nth/next_back disagree with the order of insertion")));
        }
        msgs
    });
    match r {
        Ok(msgs) => {
            for (w, d) in msgs {
                bad(&w, d);
            }
        }
        Err(m) => bad("any", format!("building or traversing a chain / a wide node of {n} nodes panicked: {m}")),
    }
    out
}
