//! Known findings: committed list, read-only at run time.
use crate::step::{prop_names, Props};

#[derive(Clone, Debug)]
pub struct Entry {
    pub status: String,
    pub property: String,
    pub signature: String,
    pub description: String,
}

#[derive(Clone, Debug, Default)]
pub struct Known {
    pub entries: Vec<Entry>,
}

impl Known {
    pub fn load(path: &str) -> Known {
        let mut k = Known::default();
        let Ok(text) = std::fs::read_to_string(path) else {
            return k;
        };
        for line in text.lines() {
            let line = line.trim();
            if line.is_empty() || line.starts_with('#') {
                continue;
            }
            let v: serde_json::Value = match serde_json::from_str(line) {
                Ok(v) => v,
                Err(e) => {
                    eprintln!("machinery error: bad line in {path}: {e}");
                    std::process::exit(2);
                }
            };
            let g = |f: &str| v.get(f).and_then(|x| x.as_str()).unwrap_or("").to_string();
            k.entries.push(Entry {
                status: g("status"),
                property: g("property"),
                signature: g("signature"),
                description: g("description"),
            });
        }
        k
    }

    /// only `open` entries suppress; `fixed` entries never do
    pub fn matches(&self, props: Props, sig: &str) -> bool {
        let names = prop_names(props);
        self.entries
            .iter()
            .any(|e| e.status == "open" && names.contains(&e.property) && e.signature == sig)
    }

    pub fn describe(&self, props: Props, sig: &str) -> String {
        let names = prop_names(props);
        self.entries
            .iter()
            .find(|e| e.status == "open" && names.contains(&e.property) && e.signature == sig)
            .map(|e| e.description.clone())
            .unwrap_or_default()
    }
}
