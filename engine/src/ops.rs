//! The operation alphabet and its execution on the real arena.
use crate::model::Ins;
use crate::payload::{Payload, WRITE_BIT};
use indextree::{Arena, NodeId};
use std::panic::{catch_unwind, AssertUnwindSafe};

#[derive(Clone, Copy, PartialEq, Eq, Debug, Hash, PartialOrd, Ord)]
pub enum Op {
    NewNode,
    /// `cur[p].append_value(v, arena)`
    AppendValue(usize),
    /// `cur[a].checked_<ins>(cur[b], arena)` (+ unchecked differential twin)
    Insert(Ins, usize, usize),
    Detach(usize),
    Remove(usize),
    RemoveSubtree(usize),
    /// toggle the write bit of the payload (profile `payload`)
    Write(usize),
    Clear,
    Reserve(usize),
    /// `tree!(arena, v)`
    TreeLeaf,
    /// `tree!(arena, cur[p] => { v1, v2 => { v3 } })`
    TreeNest(usize),
    /// `arena = deserialize(serialize(arena))` through serde_json (engine built with `deser`)
    RoundTrip,
}

impl Op {
    pub fn kind(&self) -> &'static str {
        match self {
            Op::NewNode => "new_node",
            Op::AppendValue(_) => "append_value",
            Op::Insert(i, _, _) => i.name(),
            Op::Detach(_) => "detach",
            Op::Remove(_) => "remove",
            Op::RemoveSubtree(_) => "remove_subtree",
            Op::Write(_) => "write",
            Op::Clear => "clear",
            Op::Reserve(_) => "reserve",
            Op::TreeLeaf => "tree_leaf",
            Op::TreeNest(_) => "tree_nest",
            Op::RoundTrip => "serde_round_trip",
        }
    }
    /// number of nodes this op allocates when it succeeds
    pub fn allocs(&self) -> usize {
        match self {
            Op::NewNode | Op::AppendValue(_) | Op::TreeLeaf => 1,
            Op::TreeNest(_) => 3,
            _ => 0,
        }
    }
    /// human-readable / replay form, 1-based slot numbers as `NodeId` prints them
    pub fn text(&self) -> String {
        match self {
            Op::NewNode => "new_node".into(),
            Op::AppendValue(p) => format!("append_value {}", p + 1),
            Op::Insert(i, a, b) => format!("{} {} {}", i.name(), a + 1, b + 1),
            Op::Detach(x) => format!("detach {}", x + 1),
            Op::Remove(x) => format!("remove {}", x + 1),
            Op::RemoveSubtree(x) => format!("remove_subtree {}", x + 1),
            Op::Write(x) => format!("write {}", x + 1),
            Op::Clear => "clear".into(),
            Op::Reserve(k) => format!("reserve {}", k),
            Op::TreeLeaf => "tree_leaf".into(),
            Op::TreeNest(p) => format!("tree_nest {}", p + 1),
            Op::RoundTrip => "serde_round_trip".into(),
        }
    }
    pub fn parse(s: &str) -> Option<Op> {
        let t: Vec<&str> = s.split_whitespace().collect();
        let n = |i: usize| -> Option<usize> {
            t.get(i)?.parse::<usize>().ok()
        };
        let slot = |i: usize| -> Option<usize> { n(i)?.checked_sub(1) };
        Some(match *t.first()? {
            "new_node" => Op::NewNode,
            "append_value" => Op::AppendValue(slot(1)?),
            "append" => Op::Insert(Ins::Append, slot(1)?, slot(2)?),
            "prepend" => Op::Insert(Ins::Prepend, slot(1)?, slot(2)?),
            "insert_after" => Op::Insert(Ins::After, slot(1)?, slot(2)?),
            "insert_before" => Op::Insert(Ins::Before, slot(1)?, slot(2)?),
            "detach" => Op::Detach(slot(1)?),
            "remove" => Op::Remove(slot(1)?),
            "remove_subtree" => Op::RemoveSubtree(slot(1)?),
            "write" => Op::Write(slot(1)?),
            "clear" => Op::Clear,
            "reserve" => Op::Reserve(n(1)?),
            "tree_leaf" => Op::TreeLeaf,
            "tree_nest" => Op::TreeNest(slot(1)?),
            "serde_round_trip" => Op::RoundTrip,
            _ => return None,
        })
    }
    /// the equivalent plain Rust statement for a replay `#[test]`
    pub fn rust(&self, vals: &[u8]) -> String {
        let v = |i: usize| vals.get(i).copied().unwrap_or(0);
        match self {
            Op::NewNode => format!("ids.push(arena.new_node({}));", v(0)),
            Op::AppendValue(p) => format!(
                "{{ let id = cur(&ids, {p}).append_value({}, &mut arena); ids.push(id); }}",
                v(0)
            ),
            Op::Insert(i, a, b) => format!(
                "let _ = cur(&ids, {a}).checked_{}(cur(&ids, {b}), &mut arena);",
                i.name()
            ),
            Op::Detach(x) => format!("cur(&ids, {x}).detach(&mut arena);"),
            Op::Remove(x) => format!("cur(&ids, {x}).remove(&mut arena);"),
            Op::RemoveSubtree(x) => format!("cur(&ids, {x}).remove_subtree(&mut arena);"),
            Op::Write(x) => format!("*arena[cur(&ids, {x})].get_mut() ^= 0x80;"),
            Op::Clear => "arena.clear(); ids.clear();".into(),
            Op::Reserve(k) => format!("arena.reserve({k});"),
            Op::TreeLeaf => format!("ids.push(tree!(&mut arena, {}));", v(0)),
            Op::TreeNest(p) => format!(
                "tree!(&mut arena, cur(&ids, {p}) => {{ {}, {} => {{ {} }} }});",
                v(0),
                v(1),
                v(2)
            ),
            Op::RoundTrip => "arena = serde_json::from_str(&serde_json::to_string(&arena).unwrap()).unwrap();".into(),
        }
    }
}

#[derive(Clone, PartialEq, Eq, Debug, Hash)]
pub enum Outcome {
    /// returned `()`
    Unit,
    /// returned a node id
    Id(NodeId),
    /// checked insert returned Ok(())
    Ok,
    /// checked insert returned Err(variant name, Display text)
    Err(String, String),
    /// the call unwound
    Panic(String),
}

impl Outcome {
    pub fn class(&self) -> &'static str {
        match self {
            Outcome::Unit | Outcome::Id(_) | Outcome::Ok => "returned",
            Outcome::Err(..) => "refused",
            Outcome::Panic(_) => "panicked",
        }
    }
    /// what E5 compares across build configurations: no panic texts
    pub fn digest_form(&self) -> String {
        match self {
            Outcome::Panic(_) => "panic".into(),
            Outcome::Err(v, t) => format!("Err({v}:{t})"),
            o => o.short(),
        }
    }
    pub fn short(&self) -> String {
        match self {
            Outcome::Unit => "()".into(),
            Outcome::Id(id) => format!("{:?}", id),
            Outcome::Ok => "Ok".into(),
            Outcome::Err(v, _) => format!("Err({v})"),
            Outcome::Panic(m) => format!("panic({})", m.chars().take(80).collect::<String>()),
        }
    }
}

pub fn panic_msg(e: Box<dyn std::any::Any + Send>) -> String {
    if let Some(s) = e.downcast_ref::<&str>() {
        s.to_string()
    } else if let Some(s) = e.downcast_ref::<String>() {
        s.clone()
    } else {
        "<non-string panic>".into()
    }
}

/// Run `f`, turning an unwind into `Err(message)`.
pub fn guarded<R>(f: impl FnOnce() -> R) -> Result<R, String> {
    catch_unwind(AssertUnwindSafe(f)).map_err(panic_msg)
}

pub fn checked_insert(
    arena: &mut Arena<Payload>,
    ins: Ins,
    a: NodeId,
    b: NodeId,
) -> Outcome {
    let r = guarded(|| match ins {
        Ins::Append => a.checked_append(b, arena),
        Ins::Prepend => a.checked_prepend(b, arena),
        Ins::After => a.checked_insert_after(b, arena),
        Ins::Before => a.checked_insert_before(b, arena),
    });
    match r {
        Ok(Ok(())) => Outcome::Ok,
        Ok(Err(e)) => Outcome::Err(format!("{:?}", e), format!("{}", e)),
        Err(m) => Outcome::Panic(m),
    }
}

pub fn unchecked_insert(
    arena: &mut Arena<Payload>,
    ins: Ins,
    a: NodeId,
    b: NodeId,
) -> Outcome {
    let r = guarded(|| match ins {
        Ins::Append => a.append(b, arena),
        Ins::Prepend => a.prepend(b, arena),
        Ins::After => a.insert_after(b, arena),
        Ins::Before => a.insert_before(b, arena),
    });
    match r {
        Ok(()) => Outcome::Unit,
        Err(m) => Outcome::Panic(m),
    }
}

/// Which of the three documented write paths to use (C08).
#[derive(Clone, Copy, PartialEq, Eq, Debug)]
pub enum WritePath {
    GetMut,
    IndexMut,
    IterMut,
}

pub fn write_via(arena: &mut Arena<Payload>, id: NodeId, path: WritePath) -> Outcome {
    let r = guarded(|| match path {
        WritePath::GetMut => {
            let n = arena.get_mut(id).expect("get_mut of a live id");
            let old = n.get().0;
            *n.get_mut() = Payload(old ^ WRITE_BIT);
        }
        WritePath::IndexMut => {
            let old = arena[id].get().0;
            *arena[id].get_mut() = Payload(old ^ WRITE_BIT);
        }
        WritePath::IterMut => {
            let pos = usize::from(id) - 1;
            let n = arena.iter_mut().nth(pos).expect("iter_mut position");
            let old = n.get().0;
            *n.get_mut() = Payload(old ^ WRITE_BIT);
        }
    });
    match r {
        Ok(()) => Outcome::Unit,
        Err(m) => Outcome::Panic(m),
    }
}

/// Execute one operation of the alphabet on the real arena.
/// `cur[slot]` is the id most recently issued for that slot; `vals` are the payload
/// values to hand to allocations (the caller computes them from the model).
pub fn apply(arena: &mut Arena<Payload>, cur: &[NodeId], op: Op, vals: &[u8]) -> Outcome {
    let unit = |r: Result<(), String>| match r {
        Ok(()) => Outcome::Unit,
        Err(m) => Outcome::Panic(m),
    };
    let idr = |r: Result<NodeId, String>| match r {
        Ok(id) => Outcome::Id(id),
        Err(m) => Outcome::Panic(m),
    };
    match op {
        Op::NewNode => idr(guarded(|| arena.new_node(Payload(vals[0])))),
        Op::AppendValue(p) => idr(guarded(|| cur[p].append_value(Payload(vals[0]), arena))),
        Op::Insert(ins, a, b) => checked_insert(arena, ins, cur[a], cur[b]),
        Op::Detach(x) => unit(guarded(|| cur[x].detach(arena))),
        Op::Remove(x) => unit(guarded(|| cur[x].remove(arena))),
        Op::RemoveSubtree(x) => unit(guarded(|| cur[x].remove_subtree(arena))),
        Op::Write(x) => write_via(arena, cur[x], WritePath::GetMut),
        Op::Clear => unit(guarded(|| arena.clear())),
        Op::Reserve(k) => unit(guarded(|| arena.reserve(k))),
        Op::TreeLeaf => tree_leaf(arena, vals),
        Op::TreeNest(p) => tree_nest(arena, cur[p], vals),
        Op::RoundTrip => round_trip(arena),
    }
}

#[cfg(feature = "it-macros")]
fn tree_leaf(arena: &mut Arena<Payload>, vals: &[u8]) -> Outcome {
    use indextree::macros::tree;
    match guarded(|| tree!(&mut *arena, Payload(vals[0]))) {
        Ok(id) => Outcome::Id(id),
        Err(m) => Outcome::Panic(m),
    }
}

#[cfg(feature = "it-macros")]
fn tree_nest(arena: &mut Arena<Payload>, p: NodeId, vals: &[u8]) -> Outcome {
    use indextree::macros::tree;
    match guarded(|| {
        tree!(&mut *arena, p => { Payload(vals[0]), Payload(vals[1]) => { Payload(vals[2]) } })
    }) {
        Ok(id) => Outcome::Id(id),
        Err(m) => Outcome::Panic(m),
    }
}

#[cfg(not(feature = "it-macros"))]
fn tree_leaf(_: &mut Arena<Payload>, _: &[u8]) -> Outcome {
    Outcome::Panic("engine built without the macros feature".into())
}
#[cfg(not(feature = "it-macros"))]
fn tree_nest(_: &mut Arena<Payload>, _: NodeId, _: &[u8]) -> Outcome {
    Outcome::Panic("engine built without the macros feature".into())
}

#[cfg(feature = "it-deser")]
fn round_trip(arena: &mut Arena<Payload>) -> Outcome {
    let r = guarded(|| -> Result<Arena<Payload>, String> {
        let s = serde_json::to_string(&*arena).map_err(|e| format!("serialize: {e}"))?;
        serde_json::from_str(&s).map_err(|e| format!("deserialize: {e}"))
    });
    match r {
        Ok(Ok(copy)) => {
            *arena = copy;
            Outcome::Unit
        }
        Ok(Err(e)) => Outcome::Err("RoundTripFailed".into(), e),
        Err(m) => Outcome::Panic(m),
    }
}
#[cfg(not(feature = "it-deser"))]
fn round_trip(_: &mut Arena<Payload>) -> Outcome {
    Outcome::Unit
}
