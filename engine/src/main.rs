//! itmc — bounded exhaustive exploration (model checking) of the real indextree arena.
mod deep;
mod explore;
mod judges;
mod known;
mod model;
mod obs;
mod ops;
mod payload;
mod report;
mod state;
mod step;
#[cfg(feature = "it-deser")]
mod tokens;

use explore::{Init, Profile, Report, RunCfg};
use serde_json::{json, Value};
use std::time::{Duration, Instant};
use step::*;

pub const VERIF: &str = "/verif";

fn arg(args: &[String], name: &str) -> Option<String> {
    args.iter()
        .position(|a| a == name)
        .and_then(|i| args.get(i + 1).cloned())
}
fn flag(args: &[String], name: &str) -> bool {
    args.iter().any(|a| a == name)
}

fn machinery(msg: &str) -> ! {
    eprintln!("MACHINERY-ERROR: {msg}");
    std::process::exit(2);
}

pub struct Plan {
    pub profile: Profile,
    pub judge: JudgeCfg,
    pub bounds: Vec<(usize, usize)>,
    pub inits: Vec<Init>,
}

fn parse_bounds(s: &str) -> Vec<(usize, usize)> {
    s.split(';')
        .filter(|x| !x.is_empty())
        .map(|p| {
            let mut it = p.split(',');
            let n = it.next().and_then(|x| x.trim().parse().ok());
            let a = it.next().and_then(|x| x.trim().parse().ok());
            match (n, a) {
                (Some(n), Some(a)) => (n, a),
                _ => machinery(&format!("bad --bounds element {p:?}")),
            }
        })
        .collect()
}

/// Per-property exploration plan (DESIGN §5, §6).
pub fn plan(prop: &str, tier: &str) -> Plan {
    let target = prop_from_name(prop).unwrap_or_else(|| machinery("unknown property"));
    let q = tier == "quick";
    let mut profile = Profile::default();
    let mut judge = JudgeCfg {
        target,
        ..Default::default()
    };
    let core_q = vec![(2, 3), (3, 5), (4, 6), (3, 7)];
    let core_t = vec![(2, 3), (3, 5), (4, 6), (3, 8), (4, 8), (5, 6)];
    let bounds = match prop {
        "C07" => {
            profile.tree_ops = true;
            if q { core_q } else { core_t }
        }
        "C08" => {
            profile.writes = true;
            judge.ledger = true;
            if q { vec![(2, 3), (3, 5), (4, 5)] } else { vec![(2, 3), (3, 6), (4, 6), (4, 7)] }
        }
        "C10" => if q { vec![(2, 3), (3, 5), (4, 6)] } else { vec![(2, 3), (3, 5), (4, 6), (5, 6)] },
        "C13" => {
            profile.value_ops = true;
            judge.double_exec = true;
            judge.clear_depth = if q { 3 } else { 4 };
            if q { vec![(2, 3), (3, 5), (4, 5)] } else { vec![(2, 3), (3, 6), (4, 6), (4, 7)] }
        }
        "C16" => if q { vec![(2, 3), (3, 5), (4, 5)] } else { vec![(2, 3), (3, 6), (4, 6), (4, 7)] },
        "C17" => {
            judge.rich_digest = true;
            judge.target = 0;
            if q { vec![(3, 4), (4, 5)] } else { vec![(3, 5), (4, 6)] }
        }
        "C05" => if q { vec![(2, 3), (3, 5), (4, 6)] } else { core_t },
        _ => if q { core_q } else { core_t },
    };
    Plan {
        profile,
        judge,
        bounds,
        inits: vec![Init::New],
    }
}

fn threads() -> usize {
    std::env::var("VERIF_THREADS")
        .ok()
        .and_then(|s| s.parse().ok())
        .unwrap_or_else(|| std::thread::available_parallelism().map(|n| n.get()).unwrap_or(4))
}

fn seed() -> u64 {
    std::env::var("VERIF_SEED")
        .ok()
        .and_then(|s| s.parse::<i64>().ok())
        .map(|v| v as u64)
        .unwrap_or(0)
}

pub fn evidence_json(
    prop: &str,
    tier: &str,
    reports: &[Report],
    unknown: usize,
    extra: Value,
    assumptions: Vec<String>,
    wall: f64,
) -> Value {
    let states: u64 = reports.iter().map(|r| r.states).sum();
    let transitions: u64 = reports.iter().map(|r| r.transitions).sum();
    let validated: u64 = reports.iter().map(|r| r.traces_validated).sum();
    let exhaustive = reports.iter().all(|r| r.exhaustive);
    let mut samples: Vec<Value> = Vec::new();
    for r in reports.iter().rev().take(2) {
        for s in &r.samples {
            samples.push(json!({"bounds": [r.n, r.a], "history": s}));
        }
    }
    if samples.is_empty() {
        samples.push(json!("(no state beyond the initial one was reached)"));
    }
    let largest = reports
        .iter()
        .filter(|r| r.exhaustive)
        .map(|r| format!("({},{})", r.n, r.a))
        .collect::<Vec<_>>();
    json!({
        "property_id": prop,
        "tier": tier,
        "seed": seed() as i64,
        "level": "model_checking",
        "coverage": {
            "states": states.max(1),
            "transitions": transitions.max(1),
            "traces_validated_against_impl": validated,
            "samples": samples,
            "exhaustive": exhaustive,
            "bounds_completed_to_fixed_point": largest,
            "buildcfg": report::buildcfg(),
            "runs": reports.iter().map(report::report_json).collect::<Vec<_>>(),
            "extra": extra,
            "explanation": "explicit-state BFS closure over the real Arena: every transition is a call of the real library function on a clone of the real arena, judged against a lock-step reference model; every state's shortest history is re-executed on a fresh arena (traces_validated_against_impl)",
        },
        "assumptions": assumptions,
        "wall_s": wall,
        "violations": unknown,
    })
}

fn cmd_sweep(args: &[String]) -> i32 {
    let prop = arg(args, "--prop").unwrap_or_else(|| machinery("--prop required"));
    let tier = arg(args, "--tier").unwrap_or_else(|| "quick".into());
    let t0 = Instant::now();
    let mut pl = plan(&prop, &tier);
    if let Some(b) = arg(args, "--bounds") {
        pl.bounds = parse_bounds(&b);
    }
    let known = known::Known::load(&format!("{VERIF}/known_findings.jsonl"));
    let cap_s: u64 = arg(args, "--cap-s")
        .and_then(|s| s.parse().ok())
        .unwrap_or(if tier == "quick" { 45 } else { 1500 });
    let deadline = Instant::now() + Duration::from_secs(cap_s);
    let mut reports = Vec::new();
    for (n, a) in pl.bounds.clone() {
        let cfg = RunCfg {
            n,
            a,
            profile: pl.profile,
            judge: pl.judge.clone(),
            inits: pl.inits.clone(),
            threads: threads(),
            deadline: Some(deadline),
            state_cap: 40_000_000,
            seed: seed(),
            validate_paths: !flag(args, "--no-validate"),
            keep_digests: true,
            collision_audit: flag(args, "--collision-audit"),
        };
        let r = explore::explore(&cfg, &known);
        eprintln!(
            "[{prop} {tier}] bounds ({n},{a}): states={} transitions={} exhaustive={} violations={} pruned={} {:.1}s{}",
            r.states,
            r.transitions,
            r.exhaustive,
            r.violations.len(),
            r.pruned.values().sum::<u64>(),
            r.wall_s,
            r.cap_hit.as_ref().map(|c| format!(" [{c}]")).unwrap_or_default()
        );
        let stop = r.violations.iter().any(|v| !v.known) || r.cap_hit.is_some();
        reports.push(r);
        if stop {
            break;
        }
    }
    let unknown = report::emit(
        &prop,
        pl.judge.target,
        &tier,
        &reports,
        &known,
        &format!("{VERIF}/replays"),
    );
    let wall = t0.elapsed().as_secs_f64();
    if let Some(path) = arg(args, "--report") {
        let j = json!({
            "property": prop, "tier": tier, "buildcfg": report::buildcfg(),
            "unknown_violations": unknown,
            "runs": reports.iter().map(report::report_json).collect::<Vec<_>>(),
            "wall_s": wall,
        });
        std::fs::write(&path, serde_json::to_string_pretty(&j).unwrap()).expect("write report");
    }
    if let Some(path) = arg(args, "--evidence") {
        let ev = evidence_json(
            &prop,
            &tier,
            &reports,
            unknown,
            json!({}),
            vec![
                "small scope: behaviours that need more slots / allocations than the completed bounds are not explored".into(),
                "stale ids of recycled slots, ids of other arenas and remove/detach of removed ids are documented misuse and outside the alphabet".into(),
                "the state key is the derived Debug rendering of the arena (every private field) plus the public observations; capacity() is excluded".into(),
            ],
            wall,
        );
        if let Some(dir) = std::path::Path::new(&path).parent() {
            let _ = std::fs::create_dir_all(dir);
        }
        std::fs::write(&path, serde_json::to_string_pretty(&ev).unwrap()).expect("write evidence");
    }
    if unknown > 0 {
        1
    } else {
        0
    }
}

/// C06 / C07: deep generation run + boundary windows + ordinary sweep.
fn cmd_deep(args: &[String]) -> i32 {
    let prop = arg(args, "--prop").unwrap_or_else(|| "C06".into());
    let tier = arg(args, "--tier").unwrap_or_else(|| "quick".into());
    let q = tier == "quick";
    let t0 = Instant::now();
    let target = prop_from_name(&prop).unwrap_or_else(|| machinery("unknown property"));
    let known = known::Known::load(&format!("{VERIF}/known_findings.jsonl"));
    let cycles: usize = arg(args, "--cycles")
        .and_then(|s| s.parse().ok())
        .unwrap_or(if q { 70_000 } else { 140_000 });
    let retire_min = JudgeCfg::default().retire_min;
    let pool = rayon::ThreadPoolBuilder::new().num_threads(threads()).build().unwrap();
    let stripes = threads().max(2);
    let (deep, agree) = pool.install(|| deep::run_parallel(cycles, stripes, retire_min));
    if agree != stripes {
        machinery("the deep history is not deterministic: stripes produced different id sequences");
    }
    eprintln!(
        "[{prop} {tier}] deep run: {} cycles, {} is_removed checks, retirements {:?}, {} failure kinds, {:.1}s",
        deep.cycles_done, deep.is_removed_checks, deep.retirements, deep.failures.len(), t0.elapsed().as_secs_f64()
    );
    let mut unknown = 0usize;
    let mut deep_viol = Vec::new();
    for (c, f) in &deep.failures {
        if f.props & target == 0 {
            continue;
        }
        if known.matches(f.props & target, &f.sig) {
            println!("KNOWN-FINDING: property={} {} [{}]", prop, known.describe(f.props & target, &f.sig), f.sig);
            continue;
        }
        unknown += 1;
        let _ = std::fs::create_dir_all(format!("{VERIF}/replays"));
        let path = format!("{VERIF}/replays/{}-{}.json", prop, report::sig_hash(&f.sig));
        let j = json!({
            "property": prop, "tier": tier, "buildcfg": report::buildcfg(),
            "init": "Arena::new()", "deep_cycles": c + 1,
            "ops": ["(new_node; remove 1) repeated deep_cycles times"],
            "judge": f.judge, "signature": f.sig, "detail": f.detail,
            "rust_test": format!("#[test]\nfn replay() {{\n    let mut arena = indextree::Arena::new();\n    let mut ids = Vec::new();\n    for _ in 0..{} {{ let id = arena.new_node(0u8); assert!(!ids.contains(&id)); ids.push(id); id.remove(&mut arena); }}\n    for id in &ids {{ assert!(id.is_removed(&arena)); }}\n}}\n", c + 1),
        });
        std::fs::write(&path, serde_json::to_string_pretty(&j).unwrap()).expect("write replay");
        println!("VIOLATION property={} replay={}", prop, path);
        println!("  signature: {}\n  observed : {}", f.sig, f.detail);
        deep_viol.push(json!({"cycle": c, "signature": f.sig, "detail": f.detail}));
    }
    // ---- boundary windows ------------------------------------------------------------
    let mut reports: Vec<Report> = Vec::new();
    let mut window_labels = Vec::new();
    let cap_s: u64 = arg(args, "--cap-s").and_then(|s| s.parse().ok()).unwrap_or(if q { 45 } else { 1500 });
    let deadline = Instant::now() + Duration::from_secs(cap_s);
    let mut judge = JudgeCfg { target, ..Default::default() };
    judge.retire_min = retire_min;
    if unknown == 0 {
        if let Some(&(r, _)) = deep.retirements.first() {
            let slot_sets: Vec<usize> = if q { vec![1] } else { vec![1, 2] };
            for slots in slot_sets {
                let mut inits = Vec::new();
                for k in r.saturating_sub(3)..=r + 1 {
                    let label = format!("seed(cycles={k},slots={slots})");
                    window_labels.push(label.clone());
                    inits.push(Init::Seed(label, deep::seed_state(k, slots)));
                }
                let (n, a) = if slots == 1 { (3, if q { 5 } else { 6 }) } else { (4, 5) };
                let cfg = RunCfg {
                    n, a,
                    profile: Profile::default(),
                    judge: judge.clone(),
                    inits,
                    threads: threads(),
                    deadline: Some(deadline),
                    state_cap: 40_000_000,
                    seed: seed(),
                    validate_paths: true,
                    keep_digests: false,
                    collision_audit: false,
                };
                let rep = explore::explore(&cfg, &known);
                eprintln!(
                    "[{prop} {tier}] boundary windows around cycle {r} ({slots} slot(s)), bounds ({n},+{a}): states={} transitions={} exhaustive={} violations={} {:.1}s",
                    rep.states, rep.transitions, rep.exhaustive, rep.violations.len(), rep.wall_s
                );
                reports.push(rep);
            }
        }
        // ---- ordinary sweep: every allocation transition with `issued` in the state ----
        for (n, a) in if q { vec![(3, 7), (4, 6)] } else { vec![(3, 9), (4, 8), (5, 6)] } {
            let cfg = RunCfg {
                n, a,
                profile: Profile::default(),
                judge: judge.clone(),
                inits: vec![Init::New],
                threads: threads(),
                deadline: Some(deadline),
                state_cap: 40_000_000,
                seed: seed(),
                validate_paths: true,
                keep_digests: false,
                collision_audit: false,
            };
            let rep = explore::explore(&cfg, &known);
            eprintln!(
                "[{prop} {tier}] sweep ({n},{a}): states={} transitions={} exhaustive={} violations={} {:.1}s",
                rep.states, rep.transitions, rep.exhaustive, rep.violations.len(), rep.wall_s
            );
            let stop = rep.violations.iter().any(|v| !v.known) || rep.cap_hit.is_some();
            reports.push(rep);
            if stop {
                break;
            }
        }
    }
    unknown += report::emit(&prop, target, &tier, &reports, &known, &format!("{VERIF}/replays"));
    let wall = t0.elapsed().as_secs_f64();
    if let Some(path) = arg(args, "--evidence") {
        let extra = json!({
            "deep_run": {
                "history": "(new_node; remove) repeated on one slot",
                "cycles": deep.cycles_done,
                "distinct_ids_issued": deep.ids.iter().collect::<std::collections::HashSet<_>>().len(),
                "is_removed_evaluations": deep.is_removed_checks,
                "retirements_cycle_slot": deep.retirements,
                "stripes_agreeing": agree,
                "violations": deep_viol,
                "first_ids": deep.ids.iter().take(3).map(|i| obs::fmt_id(Some(*i))).collect::<Vec<_>>(),
                "last_ids": deep.ids.iter().rev().take(3).map(|i| obs::fmt_id(Some(*i))).collect::<Vec<_>>(),
            },
            "boundary_windows": window_labels,
        });
        let mut ev = evidence_json(&prop, &tier, &reports, unknown, extra, vec![
            format!("the generation counter is exercised to {} cycles per slot; a wider counter is reported as 'no retirement below the cap'", deep.cycles_done),
            "a slot may be retired only after at least 10000 issues (C07's exception)".into(),
        ], wall);
        // the deep run's own states/transitions: each cycle is two transitions through distinct arenas
        let c = ev["coverage"].as_object_mut().unwrap();
        let st = c["states"].as_u64().unwrap() + 2 * deep.cycles_done as u64;
        let tr = c["transitions"].as_u64().unwrap() + 2 * deep.cycles_done as u64;
        let tv = c["traces_validated_against_impl"].as_u64().unwrap() + agree as u64;
        c.insert("states".into(), json!(st));
        c.insert("transitions".into(), json!(tr));
        c.insert("traces_validated_against_impl".into(), json!(tv));
        if let Some(dir) = std::path::Path::new(&path).parent() {
            let _ = std::fs::create_dir_all(dir);
        }
        std::fs::write(&path, serde_json::to_string_pretty(&ev).unwrap()).expect("write evidence");
    }
    if unknown > 0 { 1 } else { 0 }
}

fn main() {
    // silent panic hook: panics of the subject are outcomes, not noise
    let default_hook = std::panic::take_hook();
    std::panic::set_hook(Box::new(move |info| {
        let msg = format!("{info}");
        if msg.contains("machinery error") {
            default_hook(info);
        }
    }));
    let args: Vec<String> = std::env::args().skip(1).collect();
    let code = match args.first().map(|s| s.as_str()) {
        Some("sweep") => {
            let r = std::panic::catch_unwind(|| cmd_sweep(&args));
            match r {
                Ok(c) => c,
                Err(e) => {
                    eprintln!("MACHINERY-ERROR: engine panicked: {}", ops::panic_msg(e));
                    2
                }
            }
        }
        Some("deep") => match std::panic::catch_unwind(|| cmd_deep(&args)) {
            Ok(c) => c,
            Err(e) => {
                eprintln!("MACHINERY-ERROR: engine panicked: {}", ops::panic_msg(e));
                2
            }
        },
        _ => {
            eprintln!("usage: itmc sweep --prop Cxx --tier quick|thorough [--bounds n,a;n,a] [--evidence path] [--report path]");
            2
        }
    };
    std::process::exit(code);
}
