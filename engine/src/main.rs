//! itmc — bounded exhaustive exploration (model checking) of the real indextree arena.
mod deep;
mod deepops;
mod explore;
mod free;
mod judges;
mod known;
mod model;
mod obs;
mod ops;
mod payload;
mod pp;
mod readers;
mod report;
mod state;
mod step;
#[cfg(feature = "it-deser")]
mod tokens;

use explore::{Init, Profile, Report, RunCfg};
use serde_json::{json, Value};
use std::time::{Duration, Instant};
use ops::Op;
use step::*;

pub const VERIF: &str = "/verif";

fn arg(args: &[String], name: &str) -> Option<String> {
    args.iter()
        .position(|a| a == name)
        .and_then(|i| args.get(i + 1).cloned())
}
fn flag(args: &[String], name: &str) -> bool {
    args.iter().any(|a| a == name)
}

fn machinery(msg: &str) -> ! {
    eprintln!("MACHINERY-ERROR: {msg}");
    std::process::exit(2);
}

pub struct Plan {
    pub profile: Profile,
    pub judge: JudgeCfg,
    pub bounds: Vec<(usize, usize)>,
    pub inits: Vec<Init>,
}

fn parse_bounds(s: &str) -> Vec<(usize, usize)> {
    s.split(';')
        .filter(|x| !x.is_empty())
        .map(|p| {
            let mut it = p.split(',');
            let n = it.next().and_then(|x| x.trim().parse().ok());
            let a = it.next().and_then(|x| x.trim().parse().ok());
            match (n, a) {
                (Some(n), Some(a)) => (n, a),
                _ => machinery(&format!("bad --bounds element {p:?}")),
            }
        })
        .collect()
}

/// Per-property exploration plan (DESIGN §5, §6).
pub fn plan(prop: &str, tier: &str) -> Plan {
    let target = prop_from_name(prop).unwrap_or_else(|| machinery("unknown property"));
    let q = tier == "quick";
    let mut profile = Profile {
        round_trip: prop != "C17",
        // clear() leads back to an arena that must behave like the initial one: one more call per state
        clear_op: true,
        ..Default::default()
    };
    let mut judge = JudgeCfg {
        target,
        ..Default::default()
    };
    judge.lenient_links = matches!(prop, "C06" | "C07" | "C08" | "C11");
    let core_q = vec![(2, 3), (3, 5), (4, 6), (3, 7)];
    let core_t = vec![(2, 3), (3, 5), (4, 6), (3, 8), (4, 8), (5, 6), (5, 7), (6, 6)];
    let bounds = match prop {
        "C07" | "C12" => {
            profile.tree_ops = true;
            if q { core_q } else { core_t }
        }
        "C08" => {
            profile.writes = true;
            profile.clear_op = true;
            profile.tree_ops = true;
            judge.ledger = true;
            if q { vec![(2, 3), (3, 5), (4, 5)] } else { vec![(2, 3), (3, 6), (4, 6), (4, 7)] }
        }
        "C10" => if q { vec![(2, 3), (3, 5), (4, 6)] } else { vec![(2, 3), (3, 5), (4, 6), (5, 6)] },
        "C13" => {
            profile.value_ops = true;
            judge.double_exec = true;
            judge.clear_depth = if q { 3 } else { 4 };
            if q { vec![(2, 3), (3, 5), (4, 5)] } else { vec![(2, 3), (3, 6), (4, 6), (4, 7)] }
        }
        "C16" => if q { vec![(2, 3), (3, 5), (4, 5)] } else { vec![(2, 3), (3, 6), (4, 6), (4, 7)] },
        "C17" => {
            judge.rich_digest = true;
            profile.clear_op = true;
            if q { vec![(3, 4), (4, 5)] } else { vec![(3, 5), (4, 6)] }
        }
        "C05" => if q { vec![(2, 3), (3, 5), (4, 6)] } else { core_t },
        _ => if q { core_q } else { core_t },
    };
    Plan {
        profile,
        judge,
        bounds,
        inits: vec![Init::New],
    }
}

fn threads() -> usize {
    std::env::var("VERIF_THREADS")
        .ok()
        .and_then(|s| s.parse().ok())
        .unwrap_or_else(|| std::thread::available_parallelism().map(|n| n.get()).unwrap_or(4))
}

fn seed() -> u64 {
    std::env::var("VERIF_SEED")
        .ok()
        .and_then(|s| s.parse::<i64>().ok())
        .map(|v| v as u64)
        .unwrap_or(0)
}

pub fn evidence_json(
    prop: &str,
    tier: &str,
    reports: &[Report],
    unknown: usize,
    extra: Value,
    assumptions: Vec<String>,
    wall: f64,
) -> Value {
    let states: u64 = reports.iter().map(|r| r.states).sum();
    let transitions: u64 = reports.iter().map(|r| r.transitions).sum();
    let validated: u64 = reports.iter().map(|r| r.traces_validated).sum();
    let exhaustive = reports.iter().all(|r| r.exhaustive);
    let mut samples: Vec<Value> = Vec::new();
    for r in reports.iter().rev().take(2) {
        for s in &r.samples {
            samples.push(json!({"bounds": [r.n, r.a], "history": s}));
        }
    }
    if samples.is_empty() {
        samples.push(json!("(no state beyond the initial one was reached)"));
    }
    let largest = reports
        .iter()
        .filter(|r| r.exhaustive)
        .map(|r| format!("({},{})", r.n, r.a))
        .collect::<Vec<_>>();
    json!({
        "property_id": prop,
        "tier": tier,
        "seed": seed() as i64,
        "level": "model_checking",
        "coverage": {
            "states": states.max(1),
            "transitions": transitions.max(1),
            "traces_validated_against_impl": validated,
            "samples": samples,
            "exhaustive": exhaustive,
            "bounds_completed_to_fixed_point": largest,
            "buildcfg": report::buildcfg(),
            "runs": reports.iter().map(report::report_json).collect::<Vec<_>>(),
            "extra": extra,
            "explanation": "explicit-state BFS closure over the real Arena: every transition is a call of the real library function on a clone of the real arena, judged against a lock-step reference model; every state's shortest history is re-executed on a fresh arena (traces_validated_against_impl)",
        },
        "assumptions": assumptions,
        "wall_s": wall,
        "violations": unknown,
    })
}

fn cmd_sweep(args: &[String]) -> i32 {
    let prop = arg(args, "--prop").unwrap_or_else(|| machinery("--prop required"));
    let tier = arg(args, "--tier").unwrap_or_else(|| "quick".into());
    let t0 = Instant::now();
    let mut pl = plan(&prop, &tier);
    if let Some(b) = arg(args, "--bounds") {
        pl.bounds = parse_bounds(&b);
    }
    // the second build profile of the thorough tier leaves out the largest bounds (they take as long as
    // all the rest together and differ from the release run only in the library's debug assertions)
    if flag(args, "--light") && tier != "quick" && arg(args, "--bounds").is_none() {
        let heavy_judges = matches!(prop.as_str(), "C08" | "C13" | "C16");
        pl.bounds.retain(|b| !matches!(b, (5, 7) | (6, 6)) && !(heavy_judges && *b == (4, 7)));
    }
    let known = known::Known::load(&format!("{VERIF}/known_findings.jsonl"));
    let cap_s: u64 = arg(args, "--cap-s")
        .and_then(|s| s.parse().ok())
        .unwrap_or(if tier == "quick" { 600 } else { 1500 });
    // the cap is there to stop a runaway search, not to shape the tier (a quick check takes seconds);
    // every stage below gets a deadline of its own, so that a slow stage does not starve the next
    let deadline = Instant::now() + Duration::from_secs(cap_s);
    let stage_deadline = || Instant::now() + Duration::from_secs(cap_s);
    let mut reports = Vec::new();
    let mut free_counts = (0u64, 0u64);
    for (n, a) in pl.bounds.clone() {
        let cfg = RunCfg {
            n,
            a,
            profile: pl.profile,
            judge: pl.judge.clone(),
            inits: pl.inits.clone(),
            threads: threads(),
            deadline: Some(deadline),
            state_cap: 40_000_000,
            seed: seed(),
            validate_paths: !flag(args, "--no-validate"),
            keep_digests: true,
            collision_audit: flag(args, "--collision-audit"),
            collect: false,
            dump_level: arg(args, "--dump-level").and_then(|s| s.parse().ok()),
            dump_out: arg(args, "--dump-out"),
        };
        let r = explore::explore(&cfg, &known);
        eprintln!(
            "[{prop} {tier}] bounds ({n},{a}): states={} transitions={} exhaustive={} violations={} pruned={} {:.1}s{}",
            r.states,
            r.transitions,
            r.exhaustive,
            r.violations.len(),
            r.pruned.values().sum::<u64>(),
            r.wall_s,
            r.cap_hit.as_ref().map(|c| format!(" [{c}]")).unwrap_or_default()
        );
        let stop = r.violations.iter().any(|v| !v.known) || r.cap_hit.is_some();
        reports.push(r);
        if stop {
            break;
        }
    }
    // boundary windows: the same judges, started from arenas whose first slot is at the end of
    // its generation range (the one regime the ordinary sweep cannot reach by depth)
    if !flag(args, "--no-windows") && prop != "C17" && arg(args, "--bounds").is_none()
        && !reports.iter().any(|r| r.violations.iter().any(|v| !v.known))
    {
        if let Some(r) = deep::find_retirement(70_000) {
            let mut inits = Vec::new();
            for k in r.saturating_sub(2)..=r + 1 {
                if let Ok(st) = ops::guarded(|| deep::seed_state(k, 1)) {
                    inits.push(Init::Seed(format!("seed(cycles={k},slots=1)"), st));
                }
            }
            // the same boundary on the second slot, with a live node in the first
            for k in r.saturating_sub(1)..=r + 1 {
                if let Ok(st) = ops::guarded(|| deep::seed_state_at(k, 1, 1)) {
                    inits.push(Init::Seed(format!("seed(cycles={k},slots=1,offset=1)"), st));
                }
            }
            let (n, a) = (3, if tier == "quick" { 4 } else { 5 });
            let cfg = RunCfg {
                n, a,
                profile: pl.profile,
                judge: pl.judge.clone(),
                inits,
                threads: threads(),
                deadline: Some(stage_deadline()),
                state_cap: 40_000_000,
                seed: seed(),
                validate_paths: true,
                keep_digests: false,
                collision_audit: false,
                collect: false,
                dump_level: None,
                dump_out: None,
            };
            let rep = explore::explore(&cfg, &known);
            eprintln!(
                "[{prop} {tier}] boundary windows around reuse cycle {r}, bounds ({n},+{a}): states={} transitions={} exhaustive={} violations={} pruned={} {:.1}s",
                rep.states, rep.transitions, rep.exhaustive, rep.violations.len(), rep.pruned.values().sum::<u64>(), rep.wall_s
            );
            reports.push(rep);
        }
    }
    // larger forests, one step: every tree shape up to 7 (8) nodes x every operation
    if !flag(args, "--no-shapes") && prop != "C17" && arg(args, "--bounds").is_none()
        && !reports.iter().any(|r| r.violations.iter().any(|v| !v.known))
    {
        // properties whose state judges are expensive per state take smaller shapes
        let heavy = matches!(prop.as_str(), "C02" | "C10" | "C13" | "C16");
        let max_nodes = match (heavy, tier == "quick") {
            (true, true) => 6,
            (true, false) => 7,
            // (the iterator protocol makes C09's state judge costlier than the others')
            (false, true) => if prop == "C09" { 7 } else { 8 },
            (false, false) => if prop == "C09" { 8 } else { 9 },
        };
        let cfg = RunCfg {
            n: max_nodes + 1, a: 64,
            profile: pl.profile,
            judge: pl.judge.clone(),
            inits: vec![Init::New],
            threads: threads(),
            deadline: Some(stage_deadline()),
            state_cap: 40_000_000,
            seed: seed(),
            validate_paths: false,
            keep_digests: false,
            collision_audit: false,
            collect: false,
            dump_level: None,
            dump_out: None,
        };
        let rep = explore::explore_shapes(&cfg, max_nodes, &known);
        eprintln!(
            "[{prop} {tier}] single steps from every tree shape with <= {max_nodes} nodes (and the chains they leave): states={} transitions={} violations={} {:.1}s",
            rep.states, rep.transitions, rep.violations.len(), rep.wall_s
        );
        reports.push(rep);
    }
    // C01 / C02 / C10: the model-free closure (no pruning), so that the invariants are also judged on
    // arenas reached after some other property was violated on the way
    let mut free_json = json!(null);
    let mut free_unknown = 0usize;
    if matches!(prop.as_str(), "C01" | "C02" | "C04" | "C07" | "C08" | "C10" | "C11" | "C12") && arg(args, "--bounds").is_none()
        && !reports.iter().any(|r| r.violations.iter().any(|v| !v.known))
    {
        let (n, a) = if tier == "quick" { (4, 6) } else { (4, 8) };
        // C01 also with payload destructors that panic (a call that unwinds half-way must leave the
        // links consistent), at a smaller bound: such arenas keep nodes whose payload is gone
        if prop != "C02" {
            let (bn, ba) = if tier == "quick" { (3, 4) } else { (3, 5) };
            let fb = free::explore(bn, ba, pl.judge.target, threads(), Some(stage_deadline()), true);
            eprintln!(
                "[{prop} {tier}] model-free closure with panicking destructors ({bn},{ba}): states={} transitions={} exhaustive={} violations={} {:.1}s",
                fb.states, fb.transitions, fb.exhaustive, fb.violations.len(), fb.wall_s
            );
            for (f, path) in &fb.violations {
                free_unknown += emit_simple(&prop, &format!("free-bomb|{}", f.sig), &format!("after the calls {:?}: {}", path, f.detail), &known,
                    json!({"engine": "free", "init": "Arena::new()", "calls": path}));
            }
            free_counts = (fb.states, fb.transitions);
        }
        let fr = free::explore(n, a, pl.judge.target, threads(), Some(stage_deadline()), false);
        eprintln!(
            "[{prop} {tier}] model-free closure ({n},{a}): states={} transitions={} exhaustive={} violations={} {:.1}s{}",
            fr.states, fr.transitions, fr.exhaustive, fr.violations.len(), fr.wall_s,
            fr.cap_hit.as_ref().map(|c| format!(" [{c}]")).unwrap_or_default()
        );
        for (f, path) in &fr.violations {
            free_unknown += emit_simple(&prop, &format!("free|{}", f.sig), &format!("after the calls {:?}: {}", path, f.detail), &known,
                json!({"engine": "free", "init": "Arena::new()", "calls": path}));
        }
        free_json = json!({"bounds": [n, a], "states": fr.states, "transitions": fr.transitions, "levels": fr.levels,
            "exhaustive": fr.exhaustive, "cap_hit": fr.cap_hit, "sample_history": fr.sample, "wall_s": fr.wall_s});
        free_counts = (free_counts.0 + fr.states, free_counts.1 + fr.transitions);
    }
    // C09 / C02: counters narrower than usize (depth, width) — a chain 70 000 deep and a node 70 000 wide
    if (prop == "C09" || prop == "C02") && arg(args, "--bounds").is_none() {
        let n = if tier == "quick" { 70_000usize } else { 140_000 };
        for f in judges::deep_shapes(n) {
            if f.props & pl.judge.target != 0 {
                free_unknown += emit_simple(&prop, &f.sig, &f.detail, &known, json!({"engine": "deep-shapes", "nodes": n}));
            }
        }
        eprintln!("[{prop} {tier}] deep shapes: a chain {n} deep and a node {n} wide traversed by every iterator, {:.1}s", t0.elapsed().as_secs_f64());
    }
    if prop == "C08" && arg(args, "--bounds").is_none() {
        for f in judges::tree_left_early() {
            free_unknown += emit_simple(&prop, &f.sig, &f.detail, &known, json!({"engine": "tree-left-early"}));
        }
    }
    // C11 / C08: the lookups and the stored values for payload types of every layout
    if (prop == "C11" || prop == "C08") && arg(args, "--bounds").is_none() {
        for f in judges::payload_types() {
            if f.props & pl.judge.target != 0 {
                free_unknown += emit_simple(&prop, &f.sig, &f.detail, &known, json!({"engine": "payload-types"}));
            }
        }
    }
    // C11: the lookup paths over the whole generation range of a slot (the deep history)
    if prop == "C11" && arg(args, "--bounds").is_none() {
        let cycles = if tier == "quick" { 70_000usize } else { 140_000 };
        let pool = rayon::ThreadPoolBuilder::new().num_threads(threads()).build().unwrap();
        let (dr, _) = pool.install(|| deep::run_parallel(cycles, threads().max(2), JudgeCfg::default().retire_min));
        let mut sigs: Vec<String> = Vec::new();
        for (c, f) in &dr.failures {
            if f.props & pl.judge.target != 0 && !sigs.contains(&f.sig) {
                sigs.push(f.sig.clone());
                free_unknown += emit_simple(&prop, &f.sig, &f.detail, &known, json!({"engine": "deep", "init": "Arena::new()", "ops": ["(new_node; remove 1) repeated"], "deep_cycles": c + 1}));
            }
        }
        eprintln!("[{prop} {tier}] deep run: {} cycles of (new_node; remove), lookups checked in every cycle, {} failure kinds, {:.1}s", dr.cycles_done, sigs.len(), t0.elapsed().as_secs_f64());
    }
    // C13: with_capacity(n) changes nothing observable: same digest stream as new(), capacity >= n
    let mut extra_unknown = free_unknown;
    let mut extra = json!({"model_free_closure": free_json});
    if prop == "C13" && !reports.iter().any(|r| r.violations.iter().any(|v| !v.known)) {
        let (n, a) = if tier == "quick" { (3, 5) } else { (4, 6) };
        // (these runs are compared by their digest streams only — outcome and arena after every call —
        // so the per-state judges of C13, which the main sweep has applied, are not repeated in them)
        let light_judge = JudgeCfg { target: 0, double_exec: false, clear_depth: 0, ..pl.judge.clone() };
        let mk = |init: Init| RunCfg {
            n, a,
            profile: pl.profile,
            judge: light_judge.clone(),
            inits: vec![init],
            threads: threads(),
            deadline: Some(stage_deadline()),
            state_cap: 40_000_000,
            seed: seed(),
            validate_paths: true,
            keep_digests: true,
            collision_audit: false,
            collect: false,
            dump_level: None,
            dump_out: None,
        };
        let base = explore::explore(&mk(Init::New), &known);
        let mut caps: Vec<Value> = Vec::new();
        // behaviour must not depend on spare capacity: the deep history on arenas that differ only
        // in capacity (which Clone, == and clear() do not carry) issues the same ids
        {
            let n = if tier == "quick" { 70_000usize } else { 140_000 };
            let mk: Vec<(&str, indextree::Arena<payload::Payload>)> = vec![
                ("Arena::new()", indextree::Arena::new()),
                ("with_capacity(1)", indextree::Arena::with_capacity(1)),
                ("with_capacity(100)", indextree::Arena::with_capacity(100)),
                ("new() + reserve(50)", { let mut a = indextree::Arena::new(); a.reserve(50); a }),
                ("filled, cleared", { let mut a = indextree::Arena::new(); for i in 0..7u8 { a.new_node(payload::Payload(i)); } a.clear(); a }),
            ];
            let r = ops::guarded(|| {
                let mut arenas = mk;
                // two extra live nodes first, so that the cycled slot is not the only one
                let mut bad: Option<String> = None;
                for (_, a) in arenas.iter_mut() {
                    a.new_node(payload::Payload(1));
                    a.new_node(payload::Payload(2));
                }
                'outer: for c in 0..n {
                    let mut first: Option<indextree::NodeId> = None;
                    for (name, a) in arenas.iter_mut() {
                        let id = a.new_node(payload::Payload(0));
                        match first {
                            None => first = Some(id),
                            Some(f) if f != id => {
                                bad = Some(format!("in cycle {c} of (new_node; remove) after two live nodes, {name} issues {} but Arena::new() issues {}", obs::fmt_id(Some(id)), obs::fmt_id(Some(f))));
                                break 'outer;
                            }
                            _ => {}
                        }
                        id.remove(a);
                    }
                }
                bad
            });
            match r {
                Ok(None) => caps.push(json!({"capacity_independence_deep_twin_cycles": n, "arenas": 5, "agree": true})),
                Ok(Some(why)) => extra_unknown += emit_simple("C13", "capacity-twin|deep-cycle|-|ids-depend-on-capacity", &why, &known, json!({"engine": "sweep"})),
                Err(e) => extra_unknown += emit_simple("C13", "capacity-twin|deep-cycle|-|panicked", &format!("the deep history panicked: {e}"), &known, json!({"engine": "sweep"})),
            }
        }
        // the room promised by with_capacity / reserve / kept by clear() stays through every short history
        // (replayed from scratch: clones do not carry spare capacity)
        {
            let depth = if tier == "quick" { 4 } else { 5 };
            match roomy_histories(depth) {
                Ok((paths, calls)) => caps.push(json!({"roomy_histories_depth": depth, "histories": paths, "calls": calls, "room_kept": true})),
                Err((sig, why)) => extra_unknown += emit_simple("C13", &sig, &why, &known, json!({"engine": "sweep"})),
            }
        }
        for k in [20_000usize, 1_000_000] {
            let a0: indextree::Arena<payload::Payload> = indextree::Arena::with_capacity(k);
            caps.push(json!({"with_capacity": k, "capacity": a0.capacity()}));
            if a0.capacity() < k {
                extra_unknown += emit_simple("C13", "with_capacity|capacity|-|too-small", &format!("Arena::with_capacity({k}).capacity() = {}", a0.capacity()), &known, json!({"engine": "sweep"}));
            }
        }
        {
            // Arena::default() is a newly created arena too
            let r = explore::explore(&mk(Init::Default), &known);
            let same = r.digests == base.digests && r.states == base.states && r.transitions == base.transitions;
            caps.push(json!({"default": true, "same_digest_stream_as_new": same, "states": r.states}));
            if !same {
                extra_unknown += emit_simple("C13", "default|behaviour|-|differs-from-new", &format!("exploring from Arena::default() gives a different digest stream than from Arena::new() at bounds ({n},{a})"), &known, json!({"engine": "sweep"}));
            }
            reports.push(r);
        }
        for k in [0usize, 1, 5, 64] {
            let a0: indextree::Arena<payload::Payload> = indextree::Arena::with_capacity(k);
            let r = explore::explore(&mk(Init::WithCapacity(k)), &known);
            let same = r.digests == base.digests && r.states == base.states && r.transitions == base.transitions;
            caps.push(json!({"with_capacity": k, "capacity": a0.capacity(), "same_digest_stream_as_new": same, "states": r.states}));
            if a0.capacity() < k {
                extra_unknown += emit_simple("C13", "with_capacity|capacity|-|too-small", &format!("Arena::with_capacity({k}).capacity() = {}", a0.capacity()), &known, json!({"engine": "sweep"}));
            }
            if !same {
                extra_unknown += emit_simple("C13", "with_capacity|behaviour|-|differs-from-new", &format!("exploring from Arena::with_capacity({k}) gives a different digest stream than from Arena::new() at bounds ({n},{a})"), &known, json!({"engine": "sweep"}));
            }
            reports.push(r);
        }
        extra = json!({"with_capacity_runs": caps});
    }
    if prop == "C17" {
        // calls that unwind from the middle (a payload destructor panics) and calls documented to panic
        // leave the same arena / give the same outcome in every build
        let fb = free::explore(3, if tier == "quick" { 4 } else { 5 }, pl.judge.target, threads(), Some(stage_deadline()), true);
        let edge: Vec<String> = vec![
            ops::guarded(|| { let mut a: indextree::Arena<payload::Payload> = indextree::Arena::new(); a.new_node(payload::Payload(1)); a.reserve(usize::MAX); a.capacity() > 0 }).map(|b| format!("returned {b}")).unwrap_or_else(|m| format!("panicked: {m}")),
            ops::guarded(|| { let mut a: indextree::Arena<payload::Payload> = indextree::Arena::new(); a.reserve(isize::MAX as usize / 8); a.capacity() > 0 }).map(|b| format!("returned {b}")).unwrap_or_else(|m| format!("panicked: {m}")),
            ops::guarded(|| { let a: indextree::Arena<payload::Payload> = indextree::Arena::with_capacity(usize::MAX); a.capacity() > 0 }).map(|b| format!("returned {b}")).unwrap_or_else(|m| format!("panicked: {m}")),
        ];
        for f in judges::c17_par_big() {
            extra_unknown += emit_simple("C17", &format!("big-arena|{}", f.sig), &format!("arena of 100 000 slots, every third removed: {}", f.detail), &known, json!({"engine": "sweep", "part": "par_iter"}));
        }
        let (dg, grew) = deep::id_digest(if tier == "quick" { 70_000 } else { 140_000 });
        let pool = rayon::ThreadPoolBuilder::new().num_threads(threads()).build().unwrap();
        let ppr = pool.install(|| if tier == "quick" { pp::run_with(5, 3, 2, 10) } else { pp::run_with(6, 4, 2, 12) });
        extra = json!({"deep_history_digest": format!("{dg:016x}"), "arena_grew_at_cycles": grew,
            "pretty_print_digest": format!("{:016x}", ppr.digest), "pretty_print_renderings": ppr.evaluations,
            "unwound_removals_closure": {"states": fb.states, "transitions": fb.transitions, "exhaustive": fb.exhaustive, "digest": format!("{:016x}", fb.digest)},
            "calls_documented_to_panic": edge});
    }
    let unknown = extra_unknown + report::emit(
        &prop,
        pl.judge.target,
        &tier,
        &reports,
        &known,
        &format!("{VERIF}/replays"),
    );
    let wall = t0.elapsed().as_secs_f64();
    if let Some(path) = arg(args, "--report") {
        let j = json!({
            "property": prop, "tier": tier, "buildcfg": report::buildcfg(),
            "unknown_violations": unknown,
            "runs": reports.iter().map(report::report_json).collect::<Vec<_>>(),
            "wall_s": wall,
        });
        std::fs::write(&path, serde_json::to_string_pretty(&j).unwrap()).expect("write report");
    }
    if let Some(path) = arg(args, "--evidence") {
        let ev = evidence_json(
            &prop,
            &tier,
            &reports,
            unknown,
            extra,
            vec![
                "small scope: behaviours that need more slots / allocations than the completed bounds are not explored".into(),
                "stale ids of recycled slots, ids of other arenas and remove/detach of removed ids are documented misuse and outside the alphabet".into(),
                "the state key is the derived Debug rendering of the arena (every private field) plus the public observations; capacity() is excluded".into(),
            ],
            wall,
        );
        let mut ev = ev;
        if free_counts.0 > 0 {
            let c = ev["coverage"].as_object_mut().unwrap();
            let st = c["states"].as_u64().unwrap() + free_counts.0;
            let tr = c["transitions"].as_u64().unwrap() + free_counts.1;
            c.insert("states".into(), json!(st));
            c.insert("transitions".into(), json!(tr));
        }
        if let Some(dir) = std::path::Path::new(&path).parent() {
            let _ = std::fs::create_dir_all(dir);
        }
        std::fs::write(&path, serde_json::to_string_pretty(&ev).unwrap()).expect("write evidence");
    }
    if unknown > 0 {
        1
    } else {
        0
    }
}

#[derive(Clone, Copy, Debug, PartialEq)]
enum ROp {
    New,
    Append(usize),
    Remove(usize),
    RemoveSubtree(usize),
    Clear,
    Reserve(usize),
}

/// C13: every history of at most `depth` calls over {new_node, append_value, remove, remove_subtree,
/// clear, reserve} (at most 4 slots) replayed from scratch on arenas with room to spare: the capacity
/// never drops below what with_capacity / reserve promised (or clear() kept), the storage is not
/// reallocated while the promise covers the nodes, and the arena stays equal to the one the same
/// history gives from Arena::new().
fn roomy_histories(depth: usize) -> Result<(u64, u64), (String, String)> {
    use indextree::Arena;
    use payload::Payload;
    type Mk = fn() -> (Arena<Payload>, usize);
    let inits: Vec<(&str, Mk)> = vec![
        ("Arena::with_capacity(1000)", || (Arena::with_capacity(1000), 1000)),
        ("Arena::new() + reserve(500)", || { let mut a = Arena::new(); a.reserve(500); (a, 500) }),
        ("300 nodes, then clear()", || { let mut a = Arena::new(); for i in 0..300 { a.new_node(Payload(i as u8)); } let c = a.capacity(); a.clear(); (a, c) }),
        ("Arena::with_capacity(70)", || (Arena::with_capacity(70), 70)),
    ];
    // runs `path` on `a`; returns Err(description) at the first broken promise
    fn replay(a: &mut indextree::Arena<payload::Payload>, mut promised: usize, path: &[ROp], check: bool) -> Result<(), String> {
        let ptr0 = a.as_slice().as_ptr();
        let mut ids: Vec<indextree::NodeId> = Vec::new();
        let mut next = 0u8;
        for (i, op) in path.iter().enumerate() {
            let cap_before = a.capacity();
            match *op {
                ROp::New => { let id = a.new_node(payload::Payload(next)); next += 1; let x = obs::slot_of(id); if x < ids.len() { ids[x] = id } else { ids.push(id) } }
                ROp::Append(p) => { let id = ids[p].append_value(payload::Payload(next), a); next += 1; let x = obs::slot_of(id); if x < ids.len() { ids[x] = id } else { ids.push(id) } }
                ROp::Remove(x) => ids[x].remove(a),
                ROp::RemoveSubtree(x) => ids[x].remove_subtree(a),
                ROp::Clear => { a.clear(); ids.clear(); }
                ROp::Reserve(k) => { a.reserve(k); promised = promised.max(a.count() + k); }
            }
            if !check { continue; }
            let what = format!("after call {} of {:?}", i + 1, path);
            if a.capacity() < promised {
                return Err(format!("{what}: capacity() = {} although room for {promised} nodes was promised (capacity before the call: {cap_before})", a.capacity()));
            }
            if matches!(op, ROp::Clear) && a.capacity() < cap_before {
                return Err(format!("{what}: clear() shrank the capacity from {cap_before} to {}", a.capacity()));
            }
            if a.count() <= promised && a.count() > 0 && !matches!(op, ROp::Reserve(_)) && a.as_slice().as_ptr() != ptr0 {
                return Err(format!("{what}: the storage was reallocated although the promised room ({promised}) covers the {} nodes", a.count()));
            }
        }
        Ok(())
    }
    fn enabled(a: &indextree::Arena<payload::Payload>) -> Vec<ROp> {
        let mut v = vec![ROp::New, ROp::Clear, ROp::Reserve(8)];
        let live: Vec<usize> = a.as_slice().iter().enumerate().filter(|(_, n)| !n.is_removed()).map(|(i, _)| i).collect();
        let can_alloc = a.count() < 4 || live.len() < a.count();
        if !can_alloc { v.remove(0); }
        for &x in &live {
            if can_alloc { v.push(ROp::Append(x)); }
            v.push(ROp::Remove(x));
            v.push(ROp::RemoveSubtree(x));
        }
        v
    }
    let (mut paths, mut calls) = (0u64, 0u64);
    for (name, mk) in &inits {
        let mut stack: std::collections::VecDeque<Vec<ROp>> = std::collections::VecDeque::from(vec![Vec::new()]);
        while let Some(path) = stack.pop_front() {
            let (mut a, promised) = mk();
            let r = ops::guarded(|| replay(&mut a, promised, &path, true));
            paths += 1;
            calls += path.len() as u64;
            match r {
                Ok(Ok(())) => {}
                Ok(Err(why)) => return Err(("roomy|capacity|-|promised-room-lost".into(), format!("from {name}: {why}"))),
                Err(m) => return Err(("roomy|capacity|-|panicked".into(), format!("from {name}, history {:?}: {m}", path))),
            }
            let mut plain = Arena::new();
            let same = ops::guarded(|| replay(&mut plain, 0, &path, false)).is_ok() && plain == a && format!("{:?}", plain) == format!("{:?}", a);
            if !same {
                return Err(("roomy|behaviour|-|differs-from-new".into(), format!("the history {:?} gives a different arena from {name} than from Arena::new()", path)));
            }
            if path.len() < depth {
                for op in enabled(&a) {
                    let mut p = path.clone();
                    p.push(op);
                    stack.push_back(p);
                }
            }
        }
    }
    Ok((paths, calls))
}

/// Report a violation found by one of the non-E1 engines (or a KNOWN-FINDING); returns 1 if unknown.
fn emit_simple(prop: &str, sig: &str, detail: &str, known: &known::Known, replay: Value) -> usize {
    let target = prop_from_name(prop).unwrap();
    if known.matches(target, sig) {
        println!("KNOWN-FINDING: property={} {} [{}]", prop, known.describe(target, sig), sig);
        return 0;
    }
    let _ = std::fs::create_dir_all(format!("{VERIF}/replays"));
    let path = format!("{VERIF}/replays/{}-{}.json", prop, report::sig_hash(sig));
    let mut j = replay;
    j["property"] = json!(prop);
    j["signature"] = json!(sig);
    j["detail"] = json!(detail);
    j["buildcfg"] = json!(report::buildcfg());
    std::fs::write(&path, serde_json::to_string_pretty(&j).unwrap()).expect("write replay");
    println!("VIOLATION property={} replay={}", prop, path);
    println!("  signature: {}\n  observed : {}", sig, detail);
    1
}

fn write_json(path: &str, v: &Value) {
    if let Some(dir) = std::path::Path::new(path).parent() {
        let _ = std::fs::create_dir_all(dir);
    }
    std::fs::write(path, serde_json::to_string_pretty(v).unwrap()).expect("write json");
}

/// C14: pretty-printer input enumeration.
fn cmd_pp(args: &[String]) -> i32 {
    let tier = arg(args, "--tier").unwrap_or_else(|| "quick".into());
    let q = tier == "quick";
    let t0 = Instant::now();
    let known = known::Known::load(&format!("{VERIF}/known_findings.jsonl"));
    let (max_n, full_n, k) = if q { (7, 4, 2) } else { (8, 5, 3) };
    let max_n = arg(args, "--max-n").and_then(|s| s.parse().ok()).unwrap_or(max_n);
    let full_n = arg(args, "--full-n").and_then(|s| s.parse().ok()).unwrap_or(full_n);
    let k = arg(args, "--k").and_then(|s| s.parse().ok()).unwrap_or(k);
    let pool = rayon::ThreadPoolBuilder::new().num_threads(threads()).build().unwrap();
    let res = pool.install(|| pp::run(max_n, full_n, k));
    eprintln!(
        "[C14 {tier}] shapes={} renderings={} distinct non-trivial expected outputs={} mismatches={} {:.1}s",
        res.shapes, res.evaluations, res.distinct_nontrivial, res.mismatches.len(), t0.elapsed().as_secs_f64()
    );
    let mut unknown = 0;
    let mut seen_sig: Vec<String> = Vec::new();
    for m in &res.mismatches {
        let kind = match &m.got {
            Err(_) => "panicked",
            Ok(g) if g.lines().count() != m.expected.lines().count() => "wrong-lines",
            Ok(_) => "wrong-text",
        };
        let multi = m.assign.iter().any(|r| *r != 0);
        let sig = format!(
            "pretty-print|{}|{}{}|{}",
            pp::MODES[m.mode],
            if m.start == 0 { "start=root" } else { "start=inner" },
            if multi { ",multiline" } else { "" },
            kind
        );
        if seen_sig.contains(&sig) {
            continue;
        }
        seen_sig.push(sig.clone());
        let detail = format!(
            "shape(parent array)={:?} renderings={:?} start={} mode={} chunking={:?} embedded={}: expected {:?}, got {:?}",
            m.parent.iter().map(|p| if *p == usize::MAX { -1 } else { *p as i64 }).collect::<Vec<_>>(),
            m.assign.iter().map(|r| pp::raw_name(*r)).collect::<Vec<_>>(),
            m.start, pp::MODES[m.mode], m.chunking, m.embedded, shorten(&m.expected), m.got.as_ref().map(|g| shorten(g)).map_err(|e| shorten(e))
        );
        unknown += emit_simple("C14", &sig, &detail, &known, json!({
            "engine": "pp",
            "parent": m.parent.iter().map(|p| if *p == usize::MAX { -1 } else { *p as i64 }).collect::<Vec<_>>(),
            "assign": m.assign, "start": m.start, "mode": m.mode,
            "chunking": format!("{:?}", m.chunking), "embedded": m.embedded,
            "expected": m.expected,
        }));
    }
    if let Some(path) = arg(args, "--evidence") {
        write_json(&path, &json!({
            "property_id": "C14", "tier": tier, "seed": seed() as i64, "level": "exploration",
            "coverage": {
                "evaluations": res.evaluations,
                "distinct_nontrivial": res.distinct_nontrivial,
                "rule": format!("every ordered tree shape with <= {max_n} nodes ({} shapes) x every start node x renderings from {:?} (full product for shapes with <= {full_n} nodes, otherwise every assignment with at most {k} non-trivial renderings) x 4 write chunkings (whole, per line, per char via write_str, per char via write_char) x stand-alone/embedded-with-siblings-and-ancestors x 4 format modes, each compared for string equality with a reference renderer; distinct_nontrivial = distinct (mode, expected text) pairs among cases whose start node has at least one child", res.shapes, pp::ALPHABET),
                "samples": res.samples,
                "long_lines": format!("{} (shape, assignment) pairs: every shape with <= 3 nodes and a five-level spine, one node in turn or all nodes carrying one or two lines of {:?} chars (lines above 5 000 chars: whole / split-in-two chunkings, stand-alone only)", res.long_line_cases, pp::LONG),
                "exhaustive": true,
                "shapes": res.shapes,
                "buildcfg": report::buildcfg(),
            },
            "assumptions": ["payload renderings are non-empty and do not end in a newline (the property's precondition)", "formatter width/precision flags are not explored"],
            "wall_s": t0.elapsed().as_secs_f64(),
            "violations": unknown,
        }));
    }
    if unknown > 0 { 1 } else { 0 }
}

/// runs of one character longer than 24 are written as `c{n}` (long-line cases of the printer)
fn shorten(s: &str) -> String {
    let mut out = String::new();
    let cs: Vec<char> = s.chars().collect();
    let mut i = 0;
    while i < cs.len() {
        let mut j = i;
        while j < cs.len() && cs[j] == cs[i] {
            j += 1;
        }
        if j - i > 24 {
            out.push_str(&format!("{}{{x{}}}", cs[i], j - i));
        } else {
            out.extend(&cs[i..j]);
        }
        i = j;
    }
    out
}

fn collect_states(n: usize, a: usize) -> Vec<state::State> {
    let cfg = RunCfg {
        n, a,
        profile: Profile::default(),
        judge: JudgeCfg::default(),
        inits: vec![Init::New],
        threads: threads(),
        deadline: None,
        state_cap: 5_000_000,
        seed: 0,
        validate_paths: false,
        keep_digests: false,
        collision_audit: false,
        collect: true,
        dump_level: None,
        dump_out: None,
    };
    let rep = explore::explore(&cfg, &known::Known::default());
    if !rep.exhaustive || rep.bad_states > 0 || !rep.pruned.is_empty() {
        // the structural properties are not this check's business, but say what was skipped
        eprintln!("note: {} successor(s) were out of the model's reach and are not part of the arena set", rep.pruned.values().sum::<u64>() + rep.bad_states);
    }
    rep.collected
}

/// C18: reader interleavings + compile-time side conditions.
fn cmd_readers(args: &[String]) -> i32 {
    use rayon::prelude::*;
    let tier = arg(args, "--tier").unwrap_or_else(|| "quick".into());
    let q = tier == "quick";
    let t0 = Instant::now();
    let known = known::Known::load(&format!("{VERIF}/known_findings.jsonl"));
    let mut unknown = 0usize;
    // ---- side conditions (compile-time facts; not model checking) ----
    let facts = readers::auto_trait_facts();
    let mut fact_json = Vec::new();
    for (name, send, sync, esend, esync) in &facts {
        fact_json.push(json!({"type": name, "send": send, "sync": sync}));
        if send != esend || sync != esync {
            unknown += emit_simple("C18", &format!("auto-traits|{name}|-|send={send},sync={sync}"),
                &format!("{name}: Send={send} Sync={sync}, expected Send={esend} Sync={esync}"), &known,
                json!({"engine": "readers", "part": "auto-traits"}));
        }
    }
    let scan = match readers::scan_sources("/repo/indextree/src") {
        Ok(s) => s,
        Err(e) => machinery(&format!("cannot scan /repo/indextree/src: {e}")),
    };
    if !scan.forbid_unsafe {
        unknown += emit_simple("C18", "source-scan|forbid-unsafe|-|missing", "indextree/src/lib.rs no longer carries #![forbid(unsafe_code)]", &known, json!({"engine": "readers", "part": "source-scan"}));
    }
    for hit in &scan.hits {
        let what = hit.rsplit('`').nth(1).unwrap_or("?").to_string();
        unknown += emit_simple("C18", &format!("source-scan|{what}|-|present"), &format!("unsafe code / interior mutability / global state in the crate: {hit}"), &known, json!({"engine": "readers", "part": "source-scan", "hit": hit}));
    }
    // ---- the interleaver ----
    let pool = rayon::ThreadPoolBuilder::new().num_threads(threads()).build().unwrap();
    let mut parts = Vec::new();
    let plans: Vec<(usize, usize, usize, usize)> = if q {
        vec![(3, 3, 2, 4)]
    } else {
        // (the second build profile leaves the triples out: they take fifteen times as long as the pairs)
        if flag(args, "--light") { vec![(4, 4, 2, 4)] } else { vec![(4, 4, 2, 4), (3, 3, 3, 3)] }
    };
    let mut tot_states = 0u64;
    let mut tot_steps = 0u64;
    let mut tot_scheds = 0u64;
    let mut sample = Vec::new();
    let mut big_states: Vec<state::State> = Vec::new();
    let mut unwinding_runs = 0u64;
    for (n, a, k, steps) in plans {
        let states = collect_states(n, a);
        let scheds = readers::interleavings(k, steps);
        let results: Vec<(Option<readers::ReaderMismatch>, u64, u64, u64)> = pool.install(|| {
            states.par_iter().map(|s| {
                let mut st = readers::InterleaveStats { groups: 0, schedules: 0, steps: 0 };
                let r = readers::check_state(s, k, steps, &scheds, &mut st);
                (r, st.groups, st.schedules, st.steps)
            }).collect()
        });
        let mut groups = 0u64; let mut sch = 0u64; let mut stp = 0u64;
        for (i, (r, g, sc, sp)) in results.iter().enumerate() {
            groups += g; sch += sc; stp += sp;
            if let Some(m) = r {
                let names: Vec<String> = m.readers.iter().map(|(k, id)| format!("{}({})", readers::SCRIPT_NAMES[*k], obs::fmt_id(Some(*id)))).collect();
                let sig = format!("interleaver|{}|-|observation-differs-from-solo-run", m.readers.get(m.which).map(|(k, _)| readers::SCRIPT_NAMES[*k]).unwrap_or("arena-changed"));
                let detail = format!("arena {} | readers {:?} | schedule {:?}: reader {} observes something else than when it runs alone", obs::fmt_obs(&states[i].obs), names, m.schedule, m.which);
                unknown += emit_simple("C18", &sig, &detail, &known, json!({"engine": "readers", "part": "interleaver", "arena": obs::fmt_obs(&states[i].obs), "readers": names, "schedule": m.schedule}));
                break;
            }
        }
        eprintln!("[C18 {tier}] arenas of sweep ({n},{a}): {} states, groups of {k} readers x {} interleavings of {steps} steps: {groups} groups, {sch} schedules, {stp} steps, {:.1}s",
            states.len(), scheds.len(), t0.elapsed().as_secs_f64());
        tot_states += states.len() as u64; tot_steps += stp; tot_scheds += sch;
        parts.push(json!({"arenas": format!("all {} states of sweep ({n},{a})", states.len()), "readers_per_group": k, "steps_per_reader": steps,
            "interleavings_per_group": scheds.len(), "groups": groups, "schedules": sch, "steps": stp}));
        if sample.is_empty() {
            if let Some(s) = states.iter().max_by_key(|s| s.model.live_slots().len()) {
                sample.push(json!({"arena": obs::fmt_obs(&s.obs), "readers": ["traverse(1)", "children-from-both-ends(1)"], "schedule": scheds[scheds.len() / 2]}));
            }
        }
        // readers on a thread that is unwinding from a panic (dumps made from Drop guards), every arena
        {
            let bad: Vec<(usize, String)> = pool.install(|| {
                states.par_iter().enumerate().filter_map(|(i, s)| readers::unwinding_readers(s, 4).map(|m| (i, m))).collect()
            });
            unwinding_runs += states.len() as u64;
            if let Some((i, m)) = bad.into_iter().min_by_key(|(i, _)| *i) {
                if m.starts_with("machinery") { machinery(&m); }
                unknown += emit_simple("C18", "unwinding|threads|-|observation-depends-on-thread-state", &format!("arena {}: {m}", obs::fmt_obs(&states[i].obs)), &known, json!({"engine": "readers", "part": "unwinding"}));
            }
        }
        let mut sorted: Vec<&state::State> = states.iter().collect();
        sorted.sort_by_key(|s| std::cmp::Reverse(s.model.live_slots().len()));
        big_states.extend(sorted.into_iter().take(if q { 4 } else { 12 }).cloned());
    }
    // ---- par_iter (feature par_iter): the same nodes as iter(), in pools of 1, 2 and 16 threads ----
    let mut par_states = 0u64;
    if cfg!(feature = "it-par") {
        let states = collect_states(if q { 3 } else { 4 }, if q { 4 } else { 5 });
        for s in &states {
            par_states += 1;
            if let Some(f) = judges::c17_par(s).into_iter().next() {
                unknown += emit_simple("C18", &f.sig, &format!("arena {}: {}", obs::fmt_obs(&s.obs), f.detail), &known, json!({"engine": "readers", "part": "par_iter"}));
                break;
            }
        }
    }
    if cfg!(feature = "it-par") {
        for f in judges::c17_par_big() {
            unknown += emit_simple("C18", &format!("big-arena|{}", f.sig), &format!("arena of 100 000 slots, every third removed: {}", f.detail), &known, json!({"engine": "readers", "part": "par_iter"}));
        }
    }
    // ---- real threads: shuttle DFS (exhaustive over yield points) and a free-running pass ----
    let mut shuttle_schedules = 0u64;
    #[cfg(feature = "threads")]
    {
        let plan: Vec<(usize, usize)> = if q { vec![(2, 5)] } else { vec![(2, 5), (3, 3)] };
        for (k, steps) in plan {
            for s in big_states.iter().take(if q { 2 } else { 4 }) {
                match readers::shuttle_dfs(s, k, steps) {
                    Ok(n) => shuttle_schedules += n,
                    Err(m) => {
                        unknown += emit_simple("C18", "shuttle|threads|-|observation-differs-from-solo-run", &format!("arena {}: {m}", obs::fmt_obs(&s.obs)), &known, json!({"engine": "readers", "part": "shuttle"}));
                    }
                }
            }
        }
        eprintln!("[C18 {tier}] shuttle check_dfs on real threads: {shuttle_schedules} schedules, {:.1}s", t0.elapsed().as_secs_f64());
    }
    // ---- arenas with retired slots (three slots recycled until their generation counter is used up,
    // next to a small tree): every pair of readers under every interleaving, and repeated solo runs
    let mut retired_info = json!(null);
    if let Some(r) = deep::find_retirement(70_000) {
        let built = ops::guarded(|| {
            let mut st = deep::seed_state_at(r + 1, 3, 2);
            let cfgj = JudgeCfg::default();
            for op in [ops::Op::AppendValue(0), ops::Op::AppendValue(0), ops::Op::AppendValue(1)] {
                if let Some(n) = step::step(&st, op, &cfgj).next { st = n; }
            }
            st
        });
        match built {
            Ok(st) => {
                let retired = st.arena.iter().filter(|n| n.is_removed()).count();
                let scheds = readers::interleavings(2, 3);
                let mut stats = readers::InterleaveStats { groups: 0, schedules: 0, steps: 0 };
                if let Some(m) = readers::check_state(&st, 2, 3, &scheds, &mut stats) {
                    let names: Vec<String> = m.readers.iter().map(|(k, id)| format!("{}({})", readers::SCRIPT_NAMES[*k], obs::fmt_id(Some(*id)))).collect();
                    let sig = format!("interleaver|{}|retired-slots|observation-differs-from-solo-run", m.readers.get(m.which).map(|(k, _)| readers::SCRIPT_NAMES[*k]).unwrap_or("arena-changed"));
                    unknown += emit_simple("C18", &sig, &format!("arena with {retired} removed slots whose generation counter is used up, {} | readers {:?} | schedule {:?}: reader {} observes something else than when it runs alone", obs::fmt_obs(&st.obs), names, m.schedule, m.which), &known,
                        json!({"engine": "readers", "part": "interleaver", "arena": "seed_state_at(retirement+1, 3 slots, 2 live) + 3 append_value", "readers": names, "schedule": m.schedule}));
                }
                if let Some(m) = readers::free_running(&st, 8, if q { 100 } else { 1000 }) {
                    unknown += emit_simple("C18", "free-running|threads|retired-slots|observation-differs-from-solo-run", &format!("arena with retired slots {}: {m}", obs::fmt_obs(&st.obs)), &known, json!({"engine": "readers", "part": "free-running"}));
                }
                tot_states += 1; tot_steps += stats.steps; tot_scheds += stats.schedules;
                retired_info = json!({"retired_slots": retired, "groups": stats.groups, "schedules": stats.schedules, "steps": stats.steps});
                big_states.push(st);
            }
            Err(m) => machinery(&format!("building the arena with retired slots panicked: {m}")),
        }
    }
    // ---- readers on a thread that is unwinding from a panic (dumps made from Drop guards) ----
    for s in &big_states {
        unwinding_runs += 1;
        if let Some(m) = readers::unwinding_readers(s, 4) {
            if m.starts_with("machinery") { machinery(&m); }
            unknown += emit_simple("C18", "unwinding|threads|-|observation-depends-on-thread-state", &format!("arena {}: {m}", obs::fmt_obs(&s.obs)), &known, json!({"engine": "readers", "part": "unwinding"}));
            break;
        }
    }
    let mut free_runs = 0;
    for s in &big_states {
        free_runs += 1;
        if let Some(m) = readers::free_running(s, 8, if q { 300 } else { 2000 }) {
            unknown += emit_simple("C18", "free-running|threads|-|observation-differs-from-solo-run", &format!("arena {}: {m}", obs::fmt_obs(&s.obs)), &known, json!({"engine": "readers", "part": "free-running"}));
        }
    }
    if let Some(path) = arg(args, "--evidence") {
        write_json(&path, &json!({
            "property_id": "C18", "tier": tier, "seed": seed() as i64, "level": "model_checking",
            "coverage": {
                "states": tot_states.max(1),
                "transitions": tot_steps.max(1),
                "traces_validated_against_impl": tot_scheds + shuttle_schedules,
                "samples": sample,
                "exhaustive": true,
                "schedules": tot_scheds,
                "shuttle_dfs_schedules_on_real_threads": shuttle_schedules,
                "free_running_thread_runs_sampled_not_exhaustive": free_runs,
                "arena_with_retired_slots": retired_info,
                "arenas_read_from_an_unwinding_thread": unwinding_runs,
                "par_iter_compared_with_iter_in_arenas": par_states,
                "interleaver": parts,
                "side_conditions_not_model_checking": {
                    "auto_traits": fact_json,
                    "source_scan": {"files": scan.files, "identifier_tokens": scan.tokens, "hits": scan.hits, "forbid_unsafe_code_present": scan.forbid_unsafe},
                },
                "explanation": "every reader step is executed on the real iterators over one shared &Arena; the schedules are the real executions (there is no separate model), so every schedule counts as validated against the implementation",
                "buildcfg": report::buildcfg(),
            },
            "assumptions": [
                "granularity: one next()/next_back()/accessor call is one atomic step; races inside a step would need unsafe code or interior mutability, whose absence is checked by the compiler (#![forbid(unsafe_code)], auto-trait probes) and by the token scan, reported as side conditions",
                "rayon's internal schedules (par_iter) are not controlled",
            ],
            "wall_s": t0.elapsed().as_secs_f64(),
            "violations": unknown,
        }));
    }
    if unknown > 0 { 1 } else { 0 }
}

/// Re-execute a replay artefact without the explorer.
fn cmd_replay(args: &[String]) -> i32 {
    let path = args.get(1).cloned().unwrap_or_else(|| machinery("replay <file>"));
    let text = std::fs::read_to_string(&path).unwrap_or_else(|e| machinery(&format!("{path}: {e}")));
    let j: Value = serde_json::from_str(&text).unwrap_or_else(|e| machinery(&format!("{path}: {e}")));
    let prop = j["property"].as_str().unwrap_or("C01").to_string();
    let sig = j["signature"].as_str().unwrap_or("").to_string();
    let target = prop_from_name(&prop).unwrap_or(0);
    if j.get("engine").and_then(|e| e.as_str()) == Some("pp") {
        let parent: Vec<usize> = j["parent"].as_array().unwrap().iter().map(|x| { let v = x.as_i64().unwrap(); if v < 0 { usize::MAX } else { v as usize } }).collect();
        let assign: Vec<u8> = j["assign"].as_array().unwrap().iter().map(|x| x.as_u64().unwrap() as u8).collect();
        let start = j["start"].as_u64().unwrap() as usize;
        let mode = j["mode"].as_u64().unwrap() as usize;
        let chunking = match j["chunking"].as_str().unwrap_or("Whole") { "PerLine" => pp::Chunking::PerLine, "PerChar" => pp::Chunking::PerChar, "WriteChar" => pp::Chunking::WriteChar, _ => pp::Chunking::Whole };
        let (arena, ids) = pp::build(&parent, &assign, chunking, j["embedded"].as_bool().unwrap_or(false));
        let expected = pp::reference(&parent, start, &assign, mode);
        let got = ops::guarded(|| pp::render_real(&arena, ids[start], mode));
        println!("expected:\n{expected}\n--- got:\n{}", match &got { Ok(g) => g.clone(), Err(m) => format!("<panic: {m}>") });
        if got.ok().map(|g| pp::rstrip_lines(&g)) != Some(pp::rstrip_lines(&expected)) {
            println!("VIOLATION property={} replay={}", prop, path);
            return 1;
        }
        println!("no longer reproduces");
        return 0;
    }
    if let Some(c) = j.get("deep_cycles").and_then(|c| c.as_u64()) {
        let r = deep::run_stripe(c as usize + 2, 0, 1, JudgeCfg::default().retire_min);
        for (cy, f) in &r.failures {
            println!("cycle {cy}: {} — {}", f.sig, f.detail);
        }
        if r.failures.iter().any(|(_, f)| f.props & target != 0) {
            println!("VIOLATION property={} replay={}", prop, path);
            return 1;
        }
        println!("no longer reproduces");
        return 0;
    }
    let Some(opsj) = j.get("ops").and_then(|o| o.as_array()) else {
        println!("this replay file is descriptive only:\n{}", text);
        return 0;
    };
    let init = j["init"].as_str().unwrap_or("Arena::new()");
    let mut s = if let Some(rest) = init.strip_prefix("seed(cycles=") {
        let nums: Vec<usize> = rest.trim_end_matches(')').split(|c: char| !c.is_ascii_digit()).filter(|x| !x.is_empty()).filter_map(|x| x.parse().ok()).collect();
        deep::seed_state_at(*nums.first().unwrap_or(&0), *nums.get(1).unwrap_or(&1), *nums.get(2).unwrap_or(&0))
    } else if let Some(rest) = init.strip_prefix("Arena::with_capacity(") {
        state::State::initial(indextree::Arena::with_capacity(rest.trim_end_matches(')').parse().unwrap_or(0)))
    } else {
        state::State::initial(indextree::Arena::new())
    };
    let mut pl = plan(&prop, "quick");
    pl.judge.target = target;
    let mut found = false;
    let mut all_ops: Vec<Op> = opsj.iter().filter_map(|o| o.as_str()).filter_map(Op::parse).collect();
    let last_is_op = j.get("failing_op").and_then(|o| o.as_str()).and_then(Op::parse);
    if let Some(op) = last_is_op {
        all_ops.push(op);
    }
    for (i, op) in all_ops.iter().enumerate() {
        let r = step::step(&s, *op, &pl.judge);
        println!("{:>3}. {:<28} -> {}", i + 1, op.text(), r.outcome.short());
        for f in &r.failures {
            println!("       judge {} [{}]: {}", f.sig, prop_names(f.props).join(","), f.detail);
            if f.sig == sig || f.props & target != 0 {
                found = true;
            }
        }
        match r.next {
            Some(n) => s = n,
            None => break,
        }
    }
    let mut ctr = judges::StateJudgeCounters { pulls: 0, product_steps: 0, lockstep: 0 };
    for f in judges::judge_state(&s, &pl.judge, &pl.profile, 8, 64, &mut ctr) {
        println!("     state judge {} [{}]: {}", f.sig, prop_names(f.props).join(","), f.detail);
        if f.sig == sig || f.props & target != 0 {
            found = true;
        }
    }
    println!("final arena: {}", obs::fmt_obs(&s.obs));
    if found {
        println!("VIOLATION property={} replay={}", prop, path);
        1
    } else {
        println!("no longer reproduces");
        0
    }
}

/// C06 / C07: deep generation run + boundary windows + ordinary sweep.
fn cmd_deep(args: &[String]) -> i32 {
    let prop = arg(args, "--prop").unwrap_or_else(|| "C06".into());
    let tier = arg(args, "--tier").unwrap_or_else(|| "quick".into());
    let q = tier == "quick";
    let t0 = Instant::now();
    let target = prop_from_name(&prop).unwrap_or_else(|| machinery("unknown property"));
    let known = known::Known::load(&format!("{VERIF}/known_findings.jsonl"));
    let cycles: usize = arg(args, "--cycles")
        .and_then(|s| s.parse().ok())
        .unwrap_or(if q { 70_000 } else { 140_000 });
    let retire_min = JudgeCfg::default().retire_min;
    let pool = rayon::ThreadPoolBuilder::new().num_threads(threads()).build().unwrap();
    let stripes = threads().max(2);
    let (deep, agree) = pool.install(|| deep::run_parallel(cycles, stripes, retire_min));
    if agree != stripes {
        machinery("the deep history is not deterministic: stripes produced different id sequences");
    }
    eprintln!(
        "[{prop} {tier}] deep run: {} cycles, {} is_removed checks, retirements {:?}, {} failure kinds, {:.1}s",
        deep.cycles_done, deep.is_removed_checks, deep.retirements, deep.failures.len(), t0.elapsed().as_secs_f64()
    );
    // the same with two slots cycled together (two exhausted slots next to each other in the free list)
    let batch_cycles = if q { 33_000 } else { 66_000 };
    let batch: Vec<deep::DeepResult> = pool.install(|| {
        use rayon::prelude::*;
        (0..stripes).into_par_iter().map(|t| deep::run_batch_stripe(batch_cycles, 2, t, stripes)).collect()
    });
    let batch_checks: u64 = batch.iter().map(|b| b.is_removed_checks).sum();
    let mut batch_fail: Vec<(usize, Failure)> = Vec::new();
    for b in &batch {
        for f in &b.failures {
            if !batch_fail.iter().any(|g| g.1.sig == f.1.sig) {
                batch_fail.push(f.clone());
            }
        }
    }
    eprintln!("[{prop} {tier}] deep run with two slots cycled together: {batch_cycles} cycles, {batch_checks} is_removed checks, {} failure kinds, {:.1}s",
        batch_fail.len(), t0.elapsed().as_secs_f64());
    let mut all_deep_failures: Vec<(usize, Failure)> = deep.failures.clone();
    all_deep_failures.extend(batch_fail);
    let mut unknown = 0usize;
    let mut deep_viol = Vec::new();
    for (c, f) in &all_deep_failures {
        if f.props & target == 0 {
            continue;
        }
        if known.matches(f.props & target, &f.sig) {
            println!("KNOWN-FINDING: property={} {} [{}]", prop, known.describe(f.props & target, &f.sig), f.sig);
            continue;
        }
        unknown += 1;
        let _ = std::fs::create_dir_all(format!("{VERIF}/replays"));
        let path = format!("{VERIF}/replays/{}-{}.json", prop, report::sig_hash(&f.sig));
        let j = json!({
            "property": prop, "tier": tier, "buildcfg": report::buildcfg(),
            "init": "Arena::new()", "deep_cycles": c + 1,
            "ops": ["(new_node; remove 1) repeated deep_cycles times"],
            "judge": f.judge, "signature": f.sig, "detail": f.detail,
            "rust_test": format!("#[test]\nfn replay() {{\n    let mut arena = indextree::Arena::new();\n    let mut ids = Vec::new();\n    for _ in 0..{} {{ let id = arena.new_node(0u8); assert!(!ids.contains(&id)); ids.push(id); id.remove(&mut arena); }}\n    for id in &ids {{ assert!(id.is_removed(&arena)); }}\n}}\n", c + 1),
        });
        std::fs::write(&path, serde_json::to_string_pretty(&j).unwrap()).expect("write replay");
        println!("VIOLATION property={} replay={}", prop, path);
        println!("  signature: {}\n  observed : {}", f.sig, f.detail);
        deep_viol.push(json!({"cycle": c, "signature": f.sig, "detail": f.detail}));
    }
    // ---- model-free closure, also with removals that unwind from the middle: no id is issued twice, a
    // node just created does not report removed, a removal that returns has removed its node
    let mut free_info = json!(null);
    if prop == "C06" && unknown == 0 {
        let mut infos = Vec::new();
        for (bn, ba, bombs) in [(3usize, if q { 4usize } else { 5 }, true), (4, if q { 6 } else { 7 }, false)] {
            let fr = free::explore(bn, ba, target, threads(), Some(Instant::now() + Duration::from_secs(600)), bombs);
            eprintln!("[{prop} {tier}] model-free closure{} ({bn},{ba}): states={} transitions={} exhaustive={} violations={} {:.1}s",
                if bombs { " with panicking destructors" } else { "" }, fr.states, fr.transitions, fr.exhaustive, fr.violations.len(), fr.wall_s);
            for (f, path) in &fr.violations {
                unknown += emit_simple(&prop, &format!("free|{}", f.sig), &format!("after the calls {:?}: {}", path, f.detail), &known, json!({"engine": "free", "init": "Arena::new()", "calls": path}));
            }
            infos.push(json!({"bounds": [bn, ba], "panicking_destructors": bombs, "states": fr.states, "transitions": fr.transitions, "exhaustive": fr.exhaustive}));
        }
        free_info = json!(infos);
    }
    // ---- the deep history, then a serde round trip (the copy must carry the whole generation range)
    if prop == "C06" && unknown == 0 {
        for cyc in [if q { 70_000usize } else { 140_000 }, 32_767, 32_768, 32_769] {
            if let Some(why) = deep::cycles_then_round_trip(cyc) {
                unknown += emit_simple(&prop, "round-trip|deep-cycle|-|copy-disagrees-on-ids", &why, &known, json!({"engine": "deep", "cycles": cyc}));
                break;
            }
        }
    }
    // ---- boundary windows ------------------------------------------------------------
    let mut reports: Vec<Report> = Vec::new();
    let mut seed_panics: Vec<String> = Vec::new();
    let mut window_labels = Vec::new();
    let mut idh = json!(null);
    let (mut idh_steps, mut idh_paths) = (0u64, 0u64);
    let cap_s: u64 = arg(args, "--cap-s").and_then(|s| s.parse().ok()).unwrap_or(if q { 600 } else { 1500 });
    let deadline = Instant::now() + Duration::from_secs(cap_s);
    // the same judge configuration and alphabet as the property's sweep (lenient links, round trip…)
    let base_plan = plan(&prop, &tier);
    let mut judge = base_plan.judge.clone();
    judge.target = target;
    judge.retire_min = retire_min;
    let deep_profile = base_plan.profile;
    // the cycle at which the recycled slot is given up (the deep run stops at its first failure, which may
    // come just before that cycle: then the plain search for the boundary places the windows)
    let boundary: Option<usize> = deep.retirements.first().map(|x| x.0).or_else(|| deep::find_retirement(70_000));
    if unknown == 0 {
        if let Some(r) = boundary {
            let slot_sets: Vec<usize> = if q { vec![1] } else { vec![1, 2] };
            for slots in slot_sets {
                let mut inits = Vec::new();
                for k in r.saturating_sub(3)..=r + 1 {
                    let label = format!("seed(cycles={k},slots={slots})");
                    window_labels.push(label.clone());
                    match ops::guarded(|| deep::seed_state(k, slots)) {
                        Ok(st) => inits.push(Init::Seed(label, st)),
                        Err(e) => seed_panics.push(format!("{label}: {e}")),
                    }
                }
                let (n, a) = if slots == 1 { (3, if q { 5 } else { 6 }) } else { (4, 5) };
                let cfg = RunCfg {
                    n, a,
                    profile: deep_profile,
                    judge: judge.clone(),
                    inits,
                    threads: threads(),
                    deadline: Some(Instant::now() + Duration::from_secs(cap_s)),
                    state_cap: 40_000_000,
                    seed: seed(),
                    validate_paths: true,
                    keep_digests: false,
                    collision_audit: false,
                    collect: false,
                    dump_level: None,
                    dump_out: None,
                };
                let rep = explore::explore(&cfg, &known);
                eprintln!(
                    "[{prop} {tier}] boundary windows around cycle {r} ({slots} slot(s)), bounds ({n},+{a}): states={} transitions={} exhaustive={} violations={} {:.1}s",
                    rep.states, rep.transitions, rep.exhaustive, rep.violations.len(), rep.wall_s
                );
                reports.push(rep);
            }
        }
        // ---- E2b: model-free enumeration of every new_node/remove history from the seeds ----
        if prop == "C06" || prop == "C12" {
            if let Some(r) = boundary {
                use rayon::prelude::*;
                let (depth, max_live) = if q { (9, 3) } else { (11, 3) };
                let mut seeds = Vec::new();
                for slots in [1usize, 2] {
                    for k in r.saturating_sub(3)..=r + 1 {
                        seeds.push((k, slots));
                    }
                }
                let results: Vec<(usize, usize, deep::IdDfsStats, Option<(Vec<String>, Failure)>)> = pool.install(|| {
                    seeds.par_iter().map(|&(k, slots)| {
                        let mut stats = deep::IdDfsStats { paths: 0, steps: 0, is_removed_checks: 0, panics: 0 };
                        let r = match ops::guarded(|| deep::seed_state(k, slots)) {
                            Ok(st) => deep::id_history_dfs(&st, depth, max_live, prop == "C12", &mut stats),
                            Err(_) => { stats.panics += 1; None }
                        };
                        (k, slots, stats, r)
                    }).collect()
                });
                let (mut paths, mut steps, mut checks, mut panics) = (0u64, 0u64, 0u64, 0u64);
                for (k, slots, st, r) in results {
                    paths += st.paths; steps += st.steps; checks += st.is_removed_checks; panics += st.panics;
                    if let Some((path, f)) = r {
                        let sig = format!("{}|id-history|-|{}", f.judge, f.sig.rsplit('|').next().unwrap_or(""));
                        unknown += emit_simple(&prop, &sig, &format!("from seed(cycles={k},slots={slots}) the calls {:?}: {}", path, f.detail), &known,
                            json!({"engine": "id-history", "init": format!("seed(cycles={k},slots={slots})"), "calls": path}));
                    }
                }
                eprintln!("[{prop} {tier}] id-history DFS from 10 boundary seeds, depth {depth}, <= {max_live} live: {paths} histories, {steps} calls, {checks} is_removed checks, {panics} panicking calls (not followed), {:.1}s", t0.elapsed().as_secs_f64());
                idh = json!({"seeds": 10, "depth": depth, "max_live_nodes": max_live, "complete_histories": paths, "calls": steps, "is_removed_evaluations": checks, "panicking_calls_not_followed": panics});
                idh_steps = steps;
                idh_paths = paths;
            }
        }
        // ---- ordinary sweep: every allocation transition with `issued` in the state ----
        for (n, a) in if flag(args, "--no-sweep") { vec![] } else if q { vec![(3, 7), (4, 6)] } else { vec![(3, 9), (4, 8), (5, 6)] } {
            let cfg = RunCfg {
                n, a,
                profile: deep_profile,
                judge: judge.clone(),
                inits: vec![Init::New],
                threads: threads(),
                deadline: Some(Instant::now() + Duration::from_secs(cap_s)),
                state_cap: 40_000_000,
                seed: seed(),
                validate_paths: true,
                keep_digests: false,
                collision_audit: false,
                    collect: false,
                    dump_level: None,
                    dump_out: None,
            };
            let rep = explore::explore(&cfg, &known);
            eprintln!(
                "[{prop} {tier}] sweep ({n},{a}): states={} transitions={} exhaustive={} violations={} {:.1}s",
                rep.states, rep.transitions, rep.exhaustive, rep.violations.len(), rep.wall_s
            );
            let stop = rep.violations.iter().any(|v| !v.known) || rep.cap_hit.is_some();
            reports.push(rep);
            if stop {
                break;
            }
        }
    }
    unknown += report::emit(&prop, target, &tier, &reports, &known, &format!("{VERIF}/replays"));
    let wall = t0.elapsed().as_secs_f64();
    if let Some(path) = arg(args, "--evidence") {
        let extra = json!({
            "deep_run": {
                "history": "(new_node; remove) repeated on one slot",
                "cycles": deep.cycles_done,
                "distinct_ids_issued": deep.ids.iter().collect::<std::collections::HashSet<_>>().len(),
                "is_removed_evaluations": deep.is_removed_checks,
                "retirements_cycle_slot": deep.retirements,
                "stripes_agreeing": agree,
                "violations": deep_viol,
                "first_ids": deep.ids.iter().take(3).map(|i| obs::fmt_id(Some(*i))).collect::<Vec<_>>(),
                "last_ids": deep.ids.iter().rev().take(3).map(|i| obs::fmt_id(Some(*i))).collect::<Vec<_>>(),
            },
            "boundary_windows": window_labels,
            "seeds_whose_preparation_panicked": seed_panics,
            "deep_run_two_slots": {"cycles": batch_cycles, "is_removed_evaluations": batch_checks},
            "id_history_dfs": idh,
            "model_free_closure": free_info,
        });
        let mut ev = evidence_json(&prop, &tier, &reports, unknown, extra, vec![
            format!("the generation counter is exercised to {} cycles per slot; a wider counter is reported as 'no retirement below the cap'", deep.cycles_done),
            "a slot may be retired only after at least 10000 issues (C07's exception)".into(),
        ], wall);
        // the deep run's own states/transitions: each cycle is two transitions through distinct arenas
        let c = ev["coverage"].as_object_mut().unwrap();
        let st = c["states"].as_u64().unwrap() + 2 * deep.cycles_done as u64;
        let tr = c["transitions"].as_u64().unwrap() + 2 * deep.cycles_done as u64 + idh_steps;
        let tv = c["traces_validated_against_impl"].as_u64().unwrap() + agree as u64 + idh_paths;
        c.insert("states".into(), json!(st));
        c.insert("transitions".into(), json!(tr));
        c.insert("traces_validated_against_impl".into(), json!(tv));
        if let Some(dir) = std::path::Path::new(&path).parent() {
            let _ = std::fs::create_dir_all(dir);
        }
        std::fs::write(&path, serde_json::to_string_pretty(&ev).unwrap()).expect("write evidence");
    }
    if unknown > 0 { 1 } else { 0 }
}

fn main() {
    // silent panic hook: panics of the subject are outcomes, not noise
    let default_hook = std::panic::take_hook();
    std::panic::set_hook(Box::new(move |info| {
        let msg = format!("{info}");
        if msg.contains("machinery error") {
            default_hook(info);
        }
    }));
    let args: Vec<String> = std::env::args().skip(1).collect();
    // hang watchdog: a library call that does not return within 20 s is a violation of
    // "every call returns" (C02), of "valid calls succeed" (C05) and of the op's own property
    {
        let prop = arg(&args, "--prop").unwrap_or_default();
        let args2 = args.clone();
        std::thread::spawn(move || loop {
            std::thread::sleep(Duration::from_millis(500));
            for slot in explore::watch_slots() {
                let g = slot.lock().unwrap();
                if let Some(w) = g.as_ref() {
                    if w.since.elapsed() > Duration::from_secs(20) {
                        let opk = w.op.map(|o| o.kind()).unwrap_or_else(|| if w.note.is_some() { "free" } else { "?" });
                        let hang_props = ["C02", "C05", match opk { "remove" | "remove_subtree" => "C04", "new_node" | "tree_leaf" | "tree_nest" => "C07", "write" => "C08", "clear" | "reserve" => "C13", _ => "C03" }];
                        let _ = std::fs::create_dir_all(format!("{VERIF}/replays"));
                        let path = format!("{VERIF}/replays/{}-hang.json", prop);
                        let j = json!({"property": prop, "signature": format!("watchdog|{opk}|-|call-does-not-return"),
                            "init": w.init, "ops": w.path.iter().map(|o| o.text()).collect::<Vec<_>>(), "failing_op": w.op.map(|o| o.text()).or(w.note.clone()),
                            "arena_before_the_call": w.arena, "detail": "the library call did not return within 20 s"});
                        let _ = std::fs::write(&path, serde_json::to_string_pretty(&j).unwrap());
                        if hang_props.contains(&prop.as_str()) || (prop == "C12" && w.removed_involved) {
                            if let Some(ev) = arg(&args2, "--evidence") {
                                write_json(&ev, &json!({
                                    "property_id": prop, "tier": arg(&args2, "--tier").unwrap_or("quick".into()), "seed": seed() as i64, "level": "model_checking",
                                    "coverage": {"states": 1, "transitions": 1, "traces_validated_against_impl": 0, "exhaustive": false,
                                        "samples": [j.clone()], "explanation": "the exploration was aborted by the watchdog: a library call did not return"},
                                    "assumptions": [], "wall_s": 20.0, "violations": 1}));
                            }
                            println!("VIOLATION property={} replay={}", prop, path);
                            println!("  history  : {} {}\n  then     : {} does not return (20 s)", w.init, w.path.iter().map(|o| o.text()).collect::<Vec<_>>().join("; "), w.op.map(|o| o.text()).or(w.note.clone()).unwrap_or_default());
                            std::process::exit(1);
                        }
                        eprintln!("MACHINERY-ERROR: a library call hangs ({}; see {path}); property {prop} cannot be decided on this tree — the checks of C02/C05 report it", w.op.map(|o| o.text()).unwrap_or_default());
                        std::process::exit(2);
                    }
                }
            }
        });
    }
    let code = match args.first().map(|s| s.as_str()) {
        Some("sweep") => {
            let r = std::panic::catch_unwind(|| cmd_sweep(&args));
            match r {
                Ok(c) => c,
                Err(e) => {
                    eprintln!("MACHINERY-ERROR: engine panicked: {}", ops::panic_msg(e));
                    2
                }
            }
        }
        Some("pp") => match std::panic::catch_unwind(|| cmd_pp(&args)) {
            Ok(c) => c,
            Err(e) => {
                eprintln!("MACHINERY-ERROR: engine panicked: {}", ops::panic_msg(e));
                2
            }
        },
        Some("readers") => match std::panic::catch_unwind(|| cmd_readers(&args)) {
            Ok(c) => c,
            Err(e) => {
                eprintln!("MACHINERY-ERROR: engine panicked: {}", ops::panic_msg(e));
                2
            }
        },
        Some("deepops") => {
            let prop = arg(&args, "--prop").unwrap_or_else(|| machinery("--prop required"));
            let depth: usize = arg(&args, "--depth").and_then(|s| s.parse().ok()).unwrap_or(200_000);
            deepops::run(&prop, depth);
            0
        }
        Some("replay") => match std::panic::catch_unwind(|| cmd_replay(&args)) {
            Ok(c) => c,
            Err(e) => {
                eprintln!("MACHINERY-ERROR: engine panicked: {}", ops::panic_msg(e));
                2
            }
        },
        Some("deep") => match std::panic::catch_unwind(|| cmd_deep(&args)) {
            Ok(c) => c,
            Err(e) => {
                eprintln!("MACHINERY-ERROR: engine panicked: {}", ops::panic_msg(e));
                2
            }
        },
        _ => {
            eprintln!("usage: itmc sweep --prop Cxx --tier quick|thorough [--bounds n,a;n,a] [--evidence path] [--report path]");
            2
        }
    };
    std::process::exit(code);
}
