//! itmc — bounded exhaustive exploration (model checking) of the real indextree arena.
mod explore;
mod judges;
mod known;
mod model;
mod obs;
mod ops;
mod payload;
mod report;
mod state;
mod step;
#[cfg(feature = "it-deser")]
mod tokens;

use explore::{Init, Profile, Report, RunCfg};
use serde_json::{json, Value};
use std::time::{Duration, Instant};
use step::*;

pub const VERIF: &str = "/verif";

fn arg(args: &[String], name: &str) -> Option<String> {
    args.iter()
        .position(|a| a == name)
        .and_then(|i| args.get(i + 1).cloned())
}
fn flag(args: &[String], name: &str) -> bool {
    args.iter().any(|a| a == name)
}

fn machinery(msg: &str) -> ! {
    eprintln!("MACHINERY-ERROR: {msg}");
    std::process::exit(2);
}

pub struct Plan {
    pub profile: Profile,
    pub judge: JudgeCfg,
    pub bounds: Vec<(usize, usize)>,
    pub inits: Vec<Init>,
}

fn parse_bounds(s: &str) -> Vec<(usize, usize)> {
    s.split(';')
        .filter(|x| !x.is_empty())
        .map(|p| {
            let mut it = p.split(',');
            let n = it.next().and_then(|x| x.trim().parse().ok());
            let a = it.next().and_then(|x| x.trim().parse().ok());
            match (n, a) {
                (Some(n), Some(a)) => (n, a),
                _ => machinery(&format!("bad --bounds element {p:?}")),
            }
        })
        .collect()
}

/// Per-property exploration plan (DESIGN §5, §6).
pub fn plan(prop: &str, tier: &str) -> Plan {
    let target = prop_from_name(prop).unwrap_or_else(|| machinery("unknown property"));
    let q = tier == "quick";
    let mut profile = Profile::default();
    let mut judge = JudgeCfg {
        target,
        ..Default::default()
    };
    let core_q = vec![(2, 3), (3, 5), (4, 6), (3, 7)];
    let core_t = vec![(2, 3), (3, 5), (4, 6), (3, 8), (4, 8), (5, 6)];
    let bounds = match prop {
        "C07" => {
            profile.tree_ops = true;
            if q { core_q } else { core_t }
        }
        "C08" => {
            profile.writes = true;
            judge.ledger = true;
            if q { vec![(2, 3), (3, 5), (4, 5)] } else { vec![(2, 3), (3, 6), (4, 6), (4, 7)] }
        }
        "C10" => if q { vec![(2, 3), (3, 5), (4, 6)] } else { vec![(2, 3), (3, 5), (4, 6), (5, 6)] },
        "C13" => {
            profile.value_ops = true;
            judge.double_exec = true;
            judge.clear_depth = if q { 3 } else { 4 };
            if q { vec![(2, 3), (3, 5), (4, 5)] } else { vec![(2, 3), (3, 6), (4, 6), (4, 7)] }
        }
        "C16" => if q { vec![(2, 3), (3, 5), (4, 5)] } else { vec![(2, 3), (3, 6), (4, 6), (4, 7)] },
        "C17" => {
            judge.rich_digest = true;
            judge.target = 0;
            if q { vec![(3, 4), (4, 5)] } else { vec![(3, 5), (4, 6)] }
        }
        "C05" => if q { vec![(2, 3), (3, 5), (4, 6)] } else { core_t },
        _ => if q { core_q } else { core_t },
    };
    Plan {
        profile,
        judge,
        bounds,
        inits: vec![Init::New],
    }
}

fn threads() -> usize {
    std::env::var("VERIF_THREADS")
        .ok()
        .and_then(|s| s.parse().ok())
        .unwrap_or_else(|| std::thread::available_parallelism().map(|n| n.get()).unwrap_or(4))
}

fn seed() -> u64 {
    std::env::var("VERIF_SEED")
        .ok()
        .and_then(|s| s.parse::<i64>().ok())
        .map(|v| v as u64)
        .unwrap_or(0)
}

pub fn evidence_json(
    prop: &str,
    tier: &str,
    reports: &[Report],
    unknown: usize,
    extra: Value,
    assumptions: Vec<String>,
    wall: f64,
) -> Value {
    let states: u64 = reports.iter().map(|r| r.states).sum();
    let transitions: u64 = reports.iter().map(|r| r.transitions).sum();
    let validated: u64 = reports.iter().map(|r| r.traces_validated).sum();
    let exhaustive = reports.iter().all(|r| r.exhaustive);
    let mut samples: Vec<Value> = Vec::new();
    for r in reports.iter().rev().take(2) {
        for s in &r.samples {
            samples.push(json!({"bounds": [r.n, r.a], "history": s}));
        }
    }
    if samples.is_empty() {
        samples.push(json!("(no state beyond the initial one was reached)"));
    }
    let largest = reports
        .iter()
        .filter(|r| r.exhaustive)
        .map(|r| format!("({},{})", r.n, r.a))
        .collect::<Vec<_>>();
    json!({
        "property_id": prop,
        "tier": tier,
        "seed": seed() as i64,
        "level": "model_checking",
        "coverage": {
            "states": states.max(1),
            "transitions": transitions.max(1),
            "traces_validated_against_impl": validated,
            "samples": samples,
            "exhaustive": exhaustive,
            "bounds_completed_to_fixed_point": largest,
            "buildcfg": report::buildcfg(),
            "runs": reports.iter().map(report::report_json).collect::<Vec<_>>(),
            "extra": extra,
            "explanation": "explicit-state BFS closure over the real Arena: every transition is a call of the real library function on a clone of the real arena, judged against a lock-step reference model; every state's shortest history is re-executed on a fresh arena (traces_validated_against_impl)",
        },
        "assumptions": assumptions,
        "wall_s": wall,
        "violations": unknown,
    })
}

fn cmd_sweep(args: &[String]) -> i32 {
    let prop = arg(args, "--prop").unwrap_or_else(|| machinery("--prop required"));
    let tier = arg(args, "--tier").unwrap_or_else(|| "quick".into());
    let t0 = Instant::now();
    let mut pl = plan(&prop, &tier);
    if let Some(b) = arg(args, "--bounds") {
        pl.bounds = parse_bounds(&b);
    }
    let known = known::Known::load(&format!("{VERIF}/known_findings.jsonl"));
    let cap_s: u64 = arg(args, "--cap-s")
        .and_then(|s| s.parse().ok())
        .unwrap_or(if tier == "quick" { 45 } else { 1500 });
    let deadline = Instant::now() + Duration::from_secs(cap_s);
    let mut reports = Vec::new();
    for (n, a) in pl.bounds.clone() {
        let cfg = RunCfg {
            n,
            a,
            profile: pl.profile,
            judge: pl.judge.clone(),
            inits: pl.inits.clone(),
            threads: threads(),
            deadline: Some(deadline),
            state_cap: 40_000_000,
            seed: seed(),
            validate_paths: !flag(args, "--no-validate"),
            keep_digests: true,
            collision_audit: flag(args, "--collision-audit"),
        };
        let r = explore::explore(&cfg, &known);
        eprintln!(
            "[{prop} {tier}] bounds ({n},{a}): states={} transitions={} exhaustive={} violations={} pruned={} {:.1}s{}",
            r.states,
            r.transitions,
            r.exhaustive,
            r.violations.len(),
            r.pruned.values().sum::<u64>(),
            r.wall_s,
            r.cap_hit.as_ref().map(|c| format!(" [{c}]")).unwrap_or_default()
        );
        let stop = r.violations.iter().any(|v| !v.known) || r.cap_hit.is_some();
        reports.push(r);
        if stop {
            break;
        }
    }
    let unknown = report::emit(
        &prop,
        pl.judge.target,
        &tier,
        &reports,
        &known,
        &format!("{VERIF}/replays"),
    );
    let wall = t0.elapsed().as_secs_f64();
    if let Some(path) = arg(args, "--report") {
        let j = json!({
            "property": prop, "tier": tier, "buildcfg": report::buildcfg(),
            "unknown_violations": unknown,
            "runs": reports.iter().map(report::report_json).collect::<Vec<_>>(),
            "wall_s": wall,
        });
        std::fs::write(&path, serde_json::to_string_pretty(&j).unwrap()).expect("write report");
    }
    if let Some(path) = arg(args, "--evidence") {
        let ev = evidence_json(
            &prop,
            &tier,
            &reports,
            unknown,
            json!({}),
            vec![
                "small scope: behaviours that need more slots / allocations than the completed bounds are not explored".into(),
                "stale ids of recycled slots, ids of other arenas and remove/detach of removed ids are documented misuse and outside the alphabet".into(),
                "the state key is the derived Debug rendering of the arena (every private field) plus the public observations; capacity() is excluded".into(),
            ],
            wall,
        );
        if let Some(dir) = std::path::Path::new(&path).parent() {
            let _ = std::fs::create_dir_all(dir);
        }
        std::fs::write(&path, serde_json::to_string_pretty(&ev).unwrap()).expect("write evidence");
    }
    if unknown > 0 {
        1
    } else {
        0
    }
}

fn main() {
    // silent panic hook: panics of the subject are outcomes, not noise
    let default_hook = std::panic::take_hook();
    std::panic::set_hook(Box::new(move |info| {
        let msg = format!("{info}");
        if msg.contains("machinery error") {
            default_hook(info);
        }
    }));
    let args: Vec<String> = std::env::args().skip(1).collect();
    let code = match args.first().map(|s| s.as_str()) {
        Some("sweep") => {
            let r = std::panic::catch_unwind(|| cmd_sweep(&args));
            match r {
                Ok(c) => c,
                Err(e) => {
                    eprintln!("MACHINERY-ERROR: engine panicked: {}", ops::panic_msg(e));
                    2
                }
            }
        }
        _ => {
            eprintln!("usage: itmc sweep --prop Cxx --tier quick|thorough [--bounds n,a;n,a] [--evidence path] [--report path]");
            2
        }
    };
    std::process::exit(code);
}
