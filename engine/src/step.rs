//! One transition of the explorer: run the real call, advance the model in lock-step,
//! and evaluate the transition judges.
use crate::model::{Ins, Model, Reasons, Status};
use crate::obs::{self, fmt_id, fmt_obs, slot_of, SlotObs, LINK_NAMES};
use crate::ops::{self, Op, Outcome, WritePath};
use crate::payload::{self, Payload};
use crate::state::{Issued, State};
use indextree::{Arena, NodeId};

pub type Props = u32;
pub const fn p(n: u32) -> Props {
    1 << n
}
pub const C01: Props = p(1);
pub const C02: Props = p(2);
pub const C03: Props = p(3);
pub const C04: Props = p(4);
pub const C05: Props = p(5);
pub const C06: Props = p(6);
pub const C07: Props = p(7);
pub const C08: Props = p(8);
pub const C09: Props = p(9);
pub const C10: Props = p(10);
pub const C11: Props = p(11);
pub const C12: Props = p(12);
pub const C13: Props = p(13);
pub const C16: Props = p(16);
pub const C17: Props = p(17);
pub const C18: Props = p(18);

pub fn prop_names(ps: Props) -> Vec<String> {
    (1..=18)
        .filter(|i| ps & p(*i) != 0)
        .map(|i| format!("C{:02}", i))
        .collect()
}
pub fn prop_from_name(s: &str) -> Option<Props> {
    let n: u32 = s.strip_prefix('C')?.parse().ok()?;
    if (1..=18).contains(&n) {
        Some(p(n))
    } else {
        None
    }
}

#[derive(Clone, Debug)]
pub struct Failure {
    pub props: Props,
    pub judge: &'static str,
    /// a shaping judge decides whether the successor is a legitimate state at all
    pub shaping: bool,
    /// `judge|op kind|argument class|failure kind` — identifies the defect, not the path
    pub sig: String,
    pub detail: String,
}

#[derive(Clone, Debug)]
pub struct JudgeCfg {
    /// properties this run decides (violations); others only shape/prune
    pub target: Props,
    /// execute every transition twice and compare (C13)
    pub double_exec: bool,
    /// record payload drops per transition (C08)
    pub ledger: bool,
    /// a slot may stop being recycled only after this many issues (C07)
    pub retire_min: usize,
    /// product-exploration depth after clear() (C13)
    pub clear_depth: usize,
    /// extra observations folded into the digest stream (C17)
    pub rich_digest: bool,
    /// go on past successors whose only shaping failures concern links (history-based properties)
    pub lenient_links: bool,
}

impl Default for JudgeCfg {
    fn default() -> Self {
        JudgeCfg {
            target: 0,
            double_exec: false,
            ledger: false,
            retire_min: 10_000,
            clear_depth: 3,
            rich_digest: false,
            lenient_links: false,
        }
    }
}

/// Failures that only say "the links are not what the model says" (not cycles).
pub fn is_linkish(f: &Failure) -> bool {
    f.judge == "links" || (f.judge == "alpha" && f.sig.ends_with("|link"))
}

pub struct StepResult {
    pub outcome: Outcome,
    /// successor (present unless the arena could not even be observed)
    pub next: Option<State>,
    pub failures: Vec<Failure>,
    /// argument-relation / position class of this transition (coverage)
    pub class: &'static str,
    /// order-independent contribution to the level digest (E5)
    pub digest: u64,
}

fn op_props(op: &Op) -> Props {
    match op {
        Op::Insert(..) | Op::Detach(_) => C03,
        Op::AppendValue(_) => C03 | C07,
        Op::Remove(_) | Op::RemoveSubtree(_) => C04,
        Op::NewNode | Op::TreeLeaf | Op::TreeNest(_) => C07,
        Op::Write(_) => C08,
        Op::Clear | Op::Reserve(_) => C13,
        Op::RoundTrip => C16,
    }
}

pub fn op_class(m: &Model, op: &Op) -> &'static str {
    match *op {
        Op::Insert(_, a, b) => m.relation(a, b),
        Op::AppendValue(x)
        | Op::Detach(x)
        | Op::Remove(x)
        | Op::RemoveSubtree(x)
        | Op::Write(x)
        | Op::TreeNest(x) => m.position(x),
        Op::NewNode | Op::TreeLeaf => {
            if m.removed_slots().is_empty() {
                "grow"
            } else {
                "recycle"
            }
        }
        Op::Clear | Op::Reserve(_) | Op::RoundTrip => "-",
    }
}

fn applicable(variant: &str, r: Reasons) -> bool {
    if variant.ends_with("Self") {
        r.same
    } else if variant == "Removed" {
        r.removed
    } else if variant.ends_with("Ancestor") {
        r.ancestor
    } else {
        // an unknown variant of the non_exhaustive enum: nothing to hold against it
        true
    }
}

/// The links the model expects slot `x` to report, as real ids.
pub fn expected_links(m: &Model, cur: &[NodeId], x: usize) -> [Option<NodeId>; 5] {
    let l = m.links(x);
    let f = |s: Option<usize>| s.map(|s| cur[s]);
    [f(l.parent), f(l.prev), f(l.next), f(l.first), f(l.last)]
}

/// Compare α(arena') with the model for every slot. Returns (kind, slot, text) triples.
pub fn compare_alpha(
    m: &Model,
    cur: &[NodeId],
    obs: &[SlotObs],
) -> Vec<(&'static str, usize, String)> {
    let mut out = Vec::new();
    if obs.len() != m.count() {
        out.push((
            "count",
            0,
            format!("count() is {} but the model has {} slots", obs.len(), m.count()),
        ));
        return out;
    }
    for x in 0..m.count() {
        let o = &obs[x];
        match m.status[x] {
            Status::Removed => {
                if !o.removed {
                    out.push((
                        "live-but-should-be-removed",
                        x,
                        format!("slot {} is live but the model removed it", x + 1),
                    ));
                }
            }
            Status::Live => {
                if o.removed {
                    out.push((
                        "removed-but-should-be-live",
                        x,
                        format!("slot {} is removed but the model has it live", x + 1),
                    ));
                    continue;
                }
                if o.id != cur[x] {
                    out.push((
                        "id-changed",
                        x,
                        format!(
                            "slot {} now answers to {} instead of {}",
                            x + 1,
                            fmt_id(Some(o.id)),
                            fmt_id(Some(cur[x]))
                        ),
                    ));
                }
                if o.payload != Some(m.payload[x]) {
                    out.push((
                        "payload",
                        x,
                        format!(
                            "slot {} holds payload {:?}, expected {}",
                            x + 1,
                            o.payload,
                            m.payload[x]
                        ),
                    ));
                }
                let exp = expected_links(m, cur, x);
                for k in 0..5 {
                    if o.links[k] != exp[k] {
                        out.push((
                            "link",
                            x,
                            format!(
                                "slot {} {} is {}, expected {}",
                                x + 1,
                                LINK_NAMES[k],
                                fmt_id(o.links[k]),
                                fmt_id(exp[k])
                            ),
                        ));
                    }
                }
            }
        }
    }
    out
}

fn mk(
    props: Props,
    judge: &'static str,
    shaping: bool,
    op: &Op,
    class: &str,
    kind: &str,
    detail: String,
) -> Failure {
    Failure {
        props,
        judge,
        shaping,
        sig: format!("{}|{}|{}|{}", judge, op.kind(), class, kind),
        detail,
    }
}

/// Which operations are enabled in `s` under the bounds.
pub fn enabled_ops(s: &State, n_max: usize, a_max: usize, profile: &crate::explore::Profile) -> Vec<Op> {
    let m = &s.model;
    let cnt = m.count();
    let live = m.live_slots();
    let free = m.removed_slots().len();
    let mut v = Vec::new();
    // an allocation of k nodes must fit: recycled slots first, then growth up to n_max
    let room = |k: usize| s.allocs + k <= a_max && cnt + k.saturating_sub(free) <= n_max;
    if room(1) {
        v.push(Op::NewNode);
        for x in 0..cnt {
            v.push(Op::AppendValue(x));
        }
    }
    for ins in Ins::ALL {
        for a in 0..cnt {
            for b in 0..cnt {
                v.push(Op::Insert(ins, a, b));
            }
        }
    }
    for &x in &live {
        v.push(Op::Detach(x));
    }
    for &x in &live {
        v.push(Op::Remove(x));
    }
    for &x in &live {
        v.push(Op::RemoveSubtree(x));
    }
    if profile.writes {
        for &x in &live {
            v.push(Op::Write(x));
        }
    }
    if profile.value_ops || profile.clear_op {
        v.push(Op::Clear);
    }
    if profile.value_ops {
        for k in [0usize, 1, 8, usize::MAX, usize::MAX / 2 + 1] {
            v.push(Op::Reserve(k));
        }
    }
    if profile.round_trip && cfg!(feature = "it-deser") {
        v.push(Op::RoundTrip);
    }
    if profile.tree_ops {
        if room(1) {
            v.push(Op::TreeLeaf);
        }
        if room(3) {
            for &x in &live {
                v.push(Op::TreeNest(x));
            }
        }
        // anchored at a removed node the literal must be refused like append_value on it
        for x in 0..cnt {
            if !live.contains(&x) {
                v.push(Op::TreeNest(x));
            }
        }
    }
    v
}

/// Apply the model's version of a *successful* op. `new_slots` are the slots the
/// implementation allocated, in allocation order.
fn model_apply(m: &mut Model, op: &Op, new_slots: &[usize], vals: &[u8]) {
    match *op {
        Op::NewNode | Op::TreeLeaf => m.alloc(new_slots[0], vals[0]),
        Op::AppendValue(pn) => {
            m.alloc(new_slots[0], vals[0]);
            m.insert(Ins::Append, pn, new_slots[0]);
        }
        Op::TreeNest(pn) => {
            // p => { v0, v1 => { v2 } }
            m.alloc(new_slots[0], vals[0]);
            m.insert(Ins::Append, pn, new_slots[0]);
            m.alloc(new_slots[1], vals[1]);
            m.insert(Ins::Append, pn, new_slots[1]);
            m.alloc(new_slots[2], vals[2]);
            m.insert(Ins::Append, new_slots[1], new_slots[2]);
        }
        Op::Insert(ins, a, b) => m.insert(ins, a, b),
        Op::Detach(x) => m.detach(x),
        Op::Remove(x) => m.remove(x),
        Op::RemoveSubtree(x) => {
            m.remove_subtree(x);
        }
        Op::Write(x) => m.payload[x] ^= payload::WRITE_BIT,
        Op::Clear => m.clear(),
        Op::Reserve(_) | Op::RoundTrip => {}
    }
}

pub fn step(s: &State, op: Op, cfg: &JudgeCfg) -> StepResult {
    let m = &s.model;
    let class = op_class(m, &op);
    let vals = m.mex(op.allocs().max(1));
    let mut fails: Vec<Failure> = Vec::new();
    let opp = op_props(&op);

    // ---- what the model expects ------------------------------------------------
    #[derive(PartialEq)]
    enum Expect {
        Succeeds,
        Refuses(Reasons),
        Panics,
        /// reserve() of more than can exist: documented to panic; must not return without the room
        Overflows,
    }
    let expect = match op {
        Op::Insert(ins, a, b) => {
            let r = m.impossible(ins, a, b);
            if r.any() {
                Expect::Refuses(r)
            } else {
                Expect::Succeeds
            }
        }
        Op::AppendValue(pn) | Op::TreeNest(pn) if !m.is_live(pn) => Expect::Panics,
        Op::Reserve(k) if k > isize::MAX as usize / 2 => Expect::Overflows,
        _ => Expect::Succeeds,
    };
    let removed_involved = match &expect {
        Expect::Refuses(r) => r.removed,
        Expect::Panics => true,
        _ => false,
    };

    // ---- run the real call -----------------------------------------------------
    let mut arena = s.arena.clone();
    if cfg.ledger {
        payload::ledger_arm();
    }
    let outcome = ops::apply(&mut arena, &s.cur, op, &vals);
    let dropped = if cfg.ledger {
        Some(payload::ledger_take())
    } else {
        None
    };

    // ---- C13: double execution ---------------------------------------------------
    if cfg.double_exec {
        let mut arena2 = s.arena.clone();
        let outcome2 = ops::apply(&mut arena2, &s.cur, op, &vals);
        if outcome2 != outcome || arena2 != arena || obs::debug_hash(&arena2) != obs::debug_hash(&arena)
        {
            fails.push(mk(
                C13,
                "double-execution",
                false,
                &op,
                class,
                "diverged",
                format!(
                    "the same call on two equal arenas gave {} / {}",
                    outcome.short(),
                    outcome2.short()
                ),
            ));
        }
    }

    // ---- C13: a clone and its original evolve independently --------------------------
    if cfg.target & C13 != 0 && obs::debug_hash(&s.arena) != s.dbg {
        fails.push(mk(
            C13,
            "clone",
            false,
            &op,
            class,
            "call-on-a-clone-changed-the-original",
            format!("after the call on a clone the original reads {:?}", s.arena),
        ));
    }

    // ---- observe ---------------------------------------------------------------
    let obs1 = match ops::guarded(|| obs::observe(&arena)) {
        Ok(o) => o,
        Err(msg) => {
            fails.push(mk(
                // (after a round trip every aspect of the copy is the user's arena from now on)
                C01 | C08 | opp | if matches!(op, Op::RoundTrip) { C11 | C12 | C06 | C07 } else { 0 },
                "observe",
                true,
                &op,
                class,
                "unobservable",
                format!("reading the arena through as_slice()/accessors panicked: {msg}"),
            ));
            // the model-free invariants hold for *every* arena a history of valid calls leaves behind,
            // also for one whose payloads cannot all be read any more
            if let Ok(t) = ops::guarded(|| obs::observe_tolerant(&arena)) {
                fails.extend(crate::judges::j01(&arena, &t));
                fails.extend(crate::judges::j02(&t));
                fails.extend(crate::judges::removed_links(&t));
            }
            // a removal that returned: every id it removed reports removed (C06), whatever else is wrong
            if let (Op::Remove(x) | Op::RemoveSubtree(x), Outcome::Unit) = (op, &outcome) {
                let gone: Vec<usize> = if matches!(op, Op::Remove(_)) { vec![x] } else { m.subtree(x) };
                for y in gone {
                    if ops::guarded(|| s.cur[y].is_removed(&arena)) != Ok(true) {
                        fails.push(mk(
                            C06 | C04 | C12,
                            "is_removed",
                            false,
                            &op,
                            class,
                            "removed-id-reports-live",
                            format!("after the call the id {} of a node it removed reports is_removed() == false", fmt_id(Some(s.cur[y]))),
                        ));
                        break;
                    }
                }
            }
            return StepResult {
                outcome,
                next: None,
                failures: fails,
                class,
                digest: 0,
            };
        }
    };

    // ---- outcome class -----------------------------------------------------------
    let mut succeeded = false;
    if let (Op::RoundTrip, Outcome::Err(_, e) | Outcome::Panic(e)) = (op, &outcome) {
        fails.push(mk(
            C16,
            "outcome",
            true,
            &op,
            class,
            "round-trip-failed",
            format!("serialising and deserialising this arena failed: {e}; arena: {}", fmt_obs(&s.obs)),
        ));
    } else {
    match (&expect, &outcome) {
        (Expect::Succeeds, Outcome::Unit | Outcome::Id(_) | Outcome::Ok) => succeeded = true,
        (Expect::Succeeds, Outcome::Err(v, _)) => fails.push(mk(
            C05 | opp,
            "outcome",
            true,
            &op,
            class,
            "possible-refused",
            format!("a possible request was refused with {v}"),
        )),
        (Expect::Succeeds, Outcome::Panic(msg)) => fails.push(mk(
            C05 | opp,
            "outcome",
            true,
            &op,
            class,
            "valid-call-panicked",
            format!("a valid call panicked: {msg}"),
        )),
        (Expect::Refuses(r), Outcome::Err(v, text)) => {
            // the Display text must not describe another operation than the variant names
            let words: Vec<String> = text.to_lowercase().split(|c: char| !c.is_alphabetic()).map(|w| w.to_string()).collect();
            let has = |w: &str| words.iter().any(|x| x == w);
            let contradicts = (v.contains("After") && has("before")) || (v.contains("Before") && has("after"))
                || (v.starts_with("Append") && has("prepend")) || (v.starts_with("Prepend") && has("append"));
            if contradicts {
                fails.push(mk(
                    C05,
                    "outcome",
                    false,
                    &op,
                    class,
                    "reason-text-names-another-operation",
                    format!("the error {v} displays as {text:?}"),
                ));
            }
            if !applicable(v, *r) {
                fails.push(mk(
                    C05,
                    "outcome",
                    true,
                    &op,
                    class,
                    "wrong-reason",
                    format!("refused with {v}, but the applicable reasons are {r:?}"),
                ));
            }
        }
        (Expect::Refuses(r), Outcome::Ok | Outcome::Unit | Outcome::Id(_)) => {
            let mut ps = C05;
            if r.removed {
                ps |= C12;
            }
            if r.ancestor || r.same {
                ps |= C02;
            }
            fails.push(mk(
                ps,
                "outcome",
                true,
                &op,
                class,
                "impossible-accepted",
                format!("an impossible request ({r:?}) returned Ok"),
            ));
        }
        (Expect::Refuses(r), Outcome::Panic(msg)) => {
            let mut ps = C05;
            if r.removed {
                ps |= C12;
            }
            fails.push(mk(
                ps,
                "outcome",
                true,
                &op,
                class,
                "checked-call-panicked",
                format!("a checked call panicked instead of returning Err ({r:?}): {msg}"),
            ));
        }
        (Expect::Panics, Outcome::Panic(_)) => {}
        (Expect::Overflows, Outcome::Panic(_)) => {}
        (Expect::Overflows, o) => {
            if let Op::Reserve(k) = op {
                if arena.count().checked_add(k).map(|want| arena.capacity() < want).unwrap_or(true) {
                    fails.push(mk(
                        C13,
                        "reserve",
                        false,
                        &op,
                        class,
                        "impossible-reservation-returned-normally",
                        format!("reserve({k}) on an arena with {} nodes returned ({}) with capacity {}", arena.count(), o.short(), arena.capacity()),
                    ));
                }
            }
        }
        (Expect::Panics, o) => fails.push(mk(
            C12,
            "outcome",
            true,
            &op,
            class,
            "removed-parent-accepted",
            format!(
                "append_value / tree! on a removed node did not panic (it returned {})",
                o.short()
            ),
        )),
    }
    }

    // ---- atomicity of refusals and panics -----------------------------------------
    let failed_call = matches!(outcome, Outcome::Err(..))
        || (matches!(outcome, Outcome::Panic(_)) && expect != Expect::Succeeds);
    if failed_call
        && (arena != s.arena || obs::debug_hash(&arena) != obs::debug_hash(&s.arena))
    {
        let ps = if expect == Expect::Panics {
            C12
        } else {
            C05 | if removed_involved { C12 } else { 0 }
        };
        fails.push(mk(
            ps,
            "atomicity",
            true,
            &op,
            class,
            "arena-changed-by-refused-call",
            format!(
                "the call did not succeed ({}) but the arena differs from the snapshot: {}",
                outcome.short(),
                fmt_obs(&obs1)
            ),
        ));
    }

    // ---- new ids, C07 slot rule, C06 freshness ---------------------------------------
    let count0 = s.obs.len();
    let count1 = obs1.len();
    let mut new_slots: Vec<usize> = Vec::new();
    if !matches!(op, Op::Clear) {
        for (x, o) in obs1.iter().enumerate() {
            if !o.removed && (x >= count0 || !m.is_live(x)) {
                new_slots.push(x);
            }
        }
    }
    // the id a single allocation returns names the new node whatever its flag says
    if let (Outcome::Id(rid), Op::NewNode | Op::AppendValue(_) | Op::TreeLeaf) = (&outcome, op) {
        let x = slot_of(*rid);
        if x < obs1.len() && obs1[x].removed {
            fails.push(mk(
                C11 | C07 | C08 | C06 | opp,
                "new-node-flag",
                true,
                &op,
                class,
                "new-node-reports-removed",
                format!(
                    "the node just created under {} reports Node::is_removed() == true (get_node_id_at gives {:?}); arena: {}",
                    fmt_id(Some(*rid)),
                    arena.get_node_id_at(std::num::NonZeroUsize::new(x + 1).unwrap()).map(|i| fmt_id(Some(i))),
                    fmt_obs(&obs1)
                ),
            ));
        }
    }
    // order of allocation: recycled ones are not ordered by slot, so for multi-allocation
    // ops recover the order from the returned structure where needed (TreeNest)
    let want_new = if succeeded { op.allocs() } else { 0 };
    if new_slots.len() != want_new || (count1 < count0 && !matches!(op, Op::Clear)) {
        fails.push(mk(
            C07 | opp,
            "alloc-count",
            true,
            &op,
            class,
            "wrong-number-of-new-nodes",
            format!(
                "{} node(s) appeared, expected {}; count() {} -> {}",
                new_slots.len(),
                want_new,
                count0,
                count1
            ),
        ));
    } else if want_new > 0 {
        let free_all: Vec<usize> = m.removed_slots();
        let free_strict = free_all
            .iter()
            .filter(|&&x| s.issued[x].len() < cfg.retire_min)
            .count();
        let recycled: Vec<usize> = new_slots.iter().copied().filter(|&x| x < count0).collect();
        let grown: Vec<usize> = new_slots.iter().copied().filter(|&x| x >= count0).collect();
        let mut bad = None;
        if recycled.iter().any(|x| !free_all.contains(x)) {
            bad = Some("handed-out-occupied-slot");
        } else if recycled.len() < want_new.min(free_strict) {
            bad = Some("grew-although-free-slot-available");
        } else if count1 != count0 + grown.len()
            || grown.iter().enumerate().any(|(i, &x)| x != count0 + i)
        {
            bad = Some("count-rule");
        }
        if let Some(kind) = bad {
            fails.push(mk(
                C07,
                "slot-rule",
                true,
                &op,
                class,
                kind,
                format!(
                    "new node(s) in slot(s) {:?}; free slots were {:?}; count() {} -> {}",
                    new_slots.iter().map(|x| x + 1).collect::<Vec<_>>(),
                    free_all.iter().map(|x| x + 1).collect::<Vec<_>>(),
                    count0,
                    count1
                ),
            ));
        }
        if let Outcome::Id(rid) = &outcome {
            let ok = match op {
                Op::TreeNest(pn) => *rid == s.cur[pn],
                _ => new_slots.len() == 1 && obs1[new_slots[0]].id == *rid,
            };
            if !ok {
                fails.push(mk(
                    C07 | C11,
                    "returned-id",
                    true,
                    &op,
                    class,
                    "returned-id-does-not-address-new-node",
                    format!("returned {} ", fmt_id(Some(*rid))),
                ));
            }
        }
        for &x in &new_slots {
            let nid = obs1[x].id;
            if x < s.obs.len() && s.obs[x].removed && s.obs[x].id == nid {
                fails.push(mk(
                    C06,
                    "fresh-id",
                    false,
                    &op,
                    class,
                    "id-equals-the-id-reported-for-the-removed-node",
                    format!("the new id {} is the id get_node_id() already handed out for the removed node in that slot", fmt_id(Some(nid))),
                ));
            }
            if x < s.issued.len() && s.issued[x].contains(nid) {
                fails.push(mk(
                    C06,
                    "fresh-id",
                    false,
                    &op,
                    class,
                    "id-reissued",
                    format!(
                        "id {} was issued before for slot {} ({} ids issued so far)",
                        fmt_id(Some(nid)),
                        x + 1,
                        s.issued[x].len()
                    ),
                ));
            }
        }
    }

    // ---- advance model / cur / issued ------------------------------------------------
    let mut model1 = m.clone();
    let mut cur1 = s.cur.clone();
    let mut issued1 = s.issued.clone();
    let mut allocs1 = s.allocs;
    let structurally_ok = !fails.iter().any(|f| f.shaping);
    let mut advanced = false;
    if succeeded && structurally_ok {
        // allocation order for TreeNest: v0 and v1 are children of p (v0 first), v2 under v1
        let mut ordered = new_slots.clone();
        if let Op::TreeNest(_) = op {
            let by_payload = |v: u8| {
                new_slots
                    .iter()
                    .copied()
                    .find(|&x| obs1[x].payload == Some(v))
            };
            match (by_payload(vals[0]), by_payload(vals[1]), by_payload(vals[2])) {
                (Some(a), Some(b), Some(c)) => ordered = vec![a, b, c],
                _ => fails.push(mk(
                    C07 | C08,
                    "alloc-payload",
                    true,
                    &op,
                    class,
                    "new-node-has-wrong-payload",
                    "the new nodes do not carry the given payloads".into(),
                )),
            }
        }
        if !fails.iter().any(|f| f.shaping) {
            for &x in &ordered {
                let nid = obs1[x].id;
                if x >= cur1.len() {
                    cur1.push(nid);
                    issued1.push(Issued::default());
                } else {
                    cur1[x] = nid;
                }
                issued1[x].extra.push(nid);
            }
            allocs1 += ordered.len();
            model_apply(&mut model1, &op, &ordered, &vals);
            advanced = true;
            if matches!(op, Op::Clear) {
                cur1.clear();
                issued1.clear();
            }
            if let Err(e) = model1.check_self() {
                panic!("machinery error: reference model inconsistent after {:?}: {}", op, e);
            }
        }
    }

    // ---- α(arena') == model' ------------------------------------------------------------
    if !fails.iter().any(|f| f.shaping) {
        for (kind, x, text) in compare_alpha(&model1, &cur1, &obs1) {
            let is_new = new_slots.contains(&x);
            let mut ps = opp;
            if expect != Expect::Succeeds {
                ps = C05 | if removed_involved { C12 } else { 0 };
            }
            match kind {
                "payload" => ps |= C08,
                "id-changed" | "removed-but-should-be-live" => ps |= C08,
                "link" if is_new => ps |= C12 | C07,
                _ => {}
            }
            if matches!(op, Op::RoundTrip) {
                // the copy is what the user goes on with: whatever differs is also a failure of the
                // property that speaks about that aspect of a reachable arena
                ps |= match kind {
                    "id-changed" => C11 | C06,
                    "removed-but-should-be-live" | "live-but-should-be-removed" => C11 | C12 | C06,
                    "link" => C01,
                    "count" => C11 | C07,
                    _ => 0,
                };
            }
            fails.push(mk(
                ps,
                "alpha",
                true,
                &op,
                class,
                kind,
                format!("{text}; arena: {}", fmt_obs(&obs1)),
            ));
            if fails.len() > 6 {
                break;
            }
        }
    }

    // ---- differential twins ------------------------------------------------------------------
    if let Op::Insert(ins, a, b) = op {
        if !matches!(outcome, Outcome::Panic(_)) {
            let mut tw = s.arena.clone();
            let to = ops::unchecked_insert(&mut tw, ins, s.cur[a], s.cur[b]);
            let refused = matches!(outcome, Outcome::Err(..));
            let bad = match (&to, refused) {
                (Outcome::Panic(_), true) => {
                    if tw != s.arena {
                        Some("unchecked-panic-changed-arena")
                    } else {
                        None
                    }
                }
                (Outcome::Panic(_), false) => Some("unchecked-panics-where-checked-succeeds"),
                (_, true) => Some("unchecked-succeeds-where-checked-fails"),
                (_, false) => {
                    if tw != arena {
                        Some("unchecked-effect-differs")
                    } else {
                        None
                    }
                }
            };
            if let Some(kind) = bad {
                fails.push(mk(
                    C05 | if removed_involved { C12 } else { 0 },
                    "unchecked-twin",
                    false,
                    &op,
                    class,
                    kind,
                    format!(
                        "checked form: {}, unchecked form: {}",
                        outcome.short(),
                        to.short()
                    ),
                ));
            }
        }
    }
    if let (Op::AppendValue(pn), true) = (op, succeeded) {
        let mut tw = s.arena.clone();
        let r = ops::guarded(|| {
            let id = tw.new_node(Payload(vals[0]));
            s.cur[pn].checked_append(id, &mut tw).map(|_| id)
        });
        let same = match (&r, &outcome) {
            (Ok(Ok(id2)), Outcome::Id(id1)) => id1 == id2 && tw == arena,
            _ => false,
        };
        if !same {
            fails.push(mk(
                C03,
                "append-value-twin",
                false,
                &op,
                class,
                "differs-from-new_node-then-append",
                format!("append_value gave {}, new_node+append gave {:?}", outcome.short(), r.map(|x| x.map(|i| fmt_id(Some(i))).map_err(|e| format!("{e:?}")))),
            ));
        }
    }
    if let (Op::Write(x), true) = (op, succeeded) {
        for path in [WritePath::IndexMut, WritePath::IterMut] {
            let mut tw = s.arena.clone();
            let o = ops::write_via(&mut tw, s.cur[x], path);
            if o != Outcome::Unit || tw != arena {
                fails.push(mk(
                    C08,
                    "write-paths",
                    false,
                    &op,
                    class,
                    "write-paths-disagree",
                    format!("{path:?} differs from get_mut: {}", o.short()),
                ));
            }
        }
    }

    // ---- read-back twin: a removed node addressed by the id the arena itself reports for it ----
    if let Op::Insert(ins, a, b) = op {
        if cfg.target & (C12 | C05) != 0 && (!m.is_live(a) || !m.is_live(b)) {
            let rb = |x: usize| if m.is_live(x) { s.cur[x] } else { s.obs[x].id };
            let (ia, ib) = (rb(a), rb(b));
            if ia != s.cur[a] || ib != s.cur[b] {
                let mut tw = s.arena.clone();
                let o1 = ops::checked_insert(&mut tw, ins, ia, ib);
                let bad1 = !matches!(o1, Outcome::Err(..)) || tw != s.arena;
                let mut tw2 = s.arena.clone();
                let o2 = ops::unchecked_insert(&mut tw2, ins, ia, ib);
                let bad2 = !matches!(o2, Outcome::Panic(_)) || tw2 != s.arena;
                if bad1 || bad2 {
                    fails.push(mk(
                        C12 | C05,
                        "readback-twin",
                        false,
                        &op,
                        class,
                        if bad1 { "removed-node-accepted-under-its-read-back-id" } else { "unchecked-form-accepts-read-back-id" },
                        format!(
                            "with the removed node addressed by the id get_node_id() reports for it ({} / {}): checked form {} (arena {}), unchecked form {} (arena {})",
                            fmt_id(Some(ia)), fmt_id(Some(ib)), o1.short(), if tw == s.arena { "unchanged" } else { "changed" },
                            o2.short(), if tw2 == s.arena { "unchanged" } else { "changed" }
                        ),
                    ));
                }
            }
        }
    }

    // ---- clone_from: overwriting an arena with another makes it equal to that other (C13), free
    // list and all (C07, C08 depend on it) — between this state and its successor, both ways.
    // A result that differs is an arena a valid call produced: it is judged like any other below.
    let mut clone_from_results: Vec<(bool, Arena<Payload>, &'static str)> = Vec::new();
    if cfg.target & (C13 | C07 | C08 | C01 | C06 | C09 | C10 | C11 | C12) != 0 {
        for (from_pred, from, to, dir) in [(true, &s.arena, &arena, "successor.clone_from(&predecessor)"), (false, &arena, &s.arena, "predecessor.clone_from(&successor)")] {
            let mut x = to.clone();
            let r = ops::guarded(|| x.clone_from(from));
            if r.is_err() || x != *from || obs::debug_hash(&x) != obs::debug_hash(from) {
                fails.push(mk(
                    C13 | C07 | C08,
                    "clone_from",
                    false,
                    &op,
                    class,
                    "clone_from-result-differs-from-source",
                    format!("{dir}: the overwritten arena is not equal to its source: {:?} vs {:?}", x, from),
                ));
                clone_from_results.push((from_pred, x, dir));
                break;
            }
        }
    }

    // ---- a removal during which a payload destructor panics (the call unwinds from the middle): the
    // nodes *outside* what is being removed are left as after the call (for remove_subtree: also as after
    // detach), or the call has not started (target and outside untouched) — never half-way; and they stay
    // a lawful forest when the slots the call freed are recycled. The bomb sits on the target itself and,
    // for remove_subtree, on each descendant in turn.
    if cfg.target & (C01 | C04 | C10) != 0 && succeeded {
        if let Op::Remove(x) | Op::RemoveSubtree(x) = op {
            let id = s.cur[x];
            let gone: Vec<usize> = if matches!(op, Op::Remove(_)) { vec![x] } else { m.subtree(x) };
            // (a call that got as far as unhooking its target and no further: the target, with everything
            // below it, is a tree of its own)
            let after_detach: Option<Vec<SlotObs>> = {
                let mut d = s.arena.clone();
                ops::guarded(|| id.detach(&mut d)).ok().and_then(|_| ops::guarded(|| obs::observe(&d)).ok())
            };
            for &y in &gone {
                let mut tb = s.arena.clone();
                payload::set_bomb(Some(m.payload[y]));
                let r = ops::guarded(|| if matches!(op, Op::Remove(_)) { id.remove(&mut tb) } else { id.remove_subtree(&mut tb) });
                payload::set_bomb(None);
                if r.is_ok() {
                    continue;
                }
                let Ok(t) = ops::guarded(|| obs::observe_tolerant(&tb)) else { continue };
                let outside = |a: &[SlotObs], b: &[SlotObs]| {
                    a.len() == b.len() && a.iter().zip(b.iter()).enumerate().all(|(z, (p, q))| gone.contains(&z) || (p.removed == q.removed && p.links == q.links && p.payload == q.payload))
                };
                // "not started" as far as the others can tell: they are unchanged, and the node they still
                // link to (the target: parent's child links, the neighbours' sibling links) is still live
                // and still links back (what happened *inside* what was being removed is nobody's business)
                // (for remove() the children of the target are among the others: as long as they name it as
                // their parent it has to list them)
                let kids_ok = |reference: &[SlotObs]| !matches!(op, Op::Remove(_)) || t[x].links[3..] == reference[x].links[3..];
                let untouched = outside(&t, &s.obs) && !t[x].removed && t[x].links[..3] == s.obs[x].links[..3] && kids_ok(&s.obs);
                let detached_only = after_detach.as_ref().map(|d| outside(&t, d) && kids_ok(d)).unwrap_or(false);
                let accepted = outside(&t, &obs1) || detached_only || untouched;
                if !accepted {
                    fails.push(mk(
                        C01 | C04 | C10,
                        "unwound-removal",
                        false,
                        &op,
                        class,
                        "other-nodes-left-half-way",
                        format!(
                            "with a destructor that panics for the payload of slot {} the call unwinds and leaves the nodes outside what is removed neither as before nor as after the call: {} (before: {}; after a normal call: {})",
                            y + 1, fmt_obs(&t), fmt_obs(&s.obs), fmt_obs(&obs1)
                        ),
                    ));
                    break;
                }
                if cfg.target & C10 != 0 && s.obs.len() <= 10 {
                    // recycle what the call freed, then the double-ended law for the nodes outside
                    for k in 0..3u8 {
                        let _ = ops::guarded(|| tb.new_node(Payload(200 + k)));
                    }
                    if let Ok(t2) = ops::guarded(|| obs::observe_tolerant(&tb)) {
                        let keep: Vec<usize> = (0..s.obs.len()).filter(|z| !gone.contains(z) && m.is_live(*z)).collect();
                        let law = crate::free::c10_law_on(&tb, &t2, Some(&keep));
                        if let Some(f) = law.into_iter().next() {
                            fails.push(mk(
                                C10,
                                "unwound-removal",
                                false,
                                &op,
                                class,
                                "outside-nodes-break-the-law-after-recycling",
                                format!("after the call unwound (destructor of slot {} panics) and three allocations: {}", y + 1, f.detail),
                            ));
                            break;
                        }
                    }
                }
            }
        }
    }

    // ---- C08 drop ledger ------------------------------------------------------------------------
    if let Some(dropped) = dropped {
        let live0 = m.live_payloads();
        let mut expected: Vec<u8> = if succeeded {
            match op {
                Op::Remove(x) => vec![m.payload[x]],
                Op::RemoveSubtree(x) => m.subtree(x).iter().map(|&y| m.payload[y]).collect(),
                Op::Write(x) => vec![m.payload[x]],
                // clear() drops every payload; a round trip replaces the arena, dropping the original
                Op::Clear | Op::RoundTrip => live0.clone(),
                _ => vec![],
            }
        } else {
            vec![]
        };
        expected.sort_unstable();
        // values handed to a failing allocation may legitimately be dropped by the callee
        let relevant: Vec<u8> = dropped
            .iter()
            .copied()
            .filter(|v| live0.contains(v) || succeeded)
            .collect();
        if expect == Expect::Panics && matches!(outcome, Outcome::Panic(_)) && dropped.iter().filter(|v| **v == vals[0]).count() != 1 {
            fails.push(mk(
                C08 | C12,
                "drop-ledger",
                false,
                &op,
                class,
                "payload-of-refused-call-retained",
                format!("append_value on a removed node panicked, but the value handed to it was dropped {} times during the call (it must not stay in the arena)", dropped.iter().filter(|v| **v == vals[0]).count()),
            ));
        }
        if relevant != expected {
            fails.push(mk(
                C08,
                "drop-ledger",
                false,
                &op,
                class,
                if relevant.len() > expected.len() {
                    "payload-dropped-early-or-twice"
                } else {
                    "payload-not-dropped-at-removal"
                },
                format!("payloads dropped during the call: {relevant:?}, expected {expected:?}"),
            ));
        }
    }

    // ---- C13 judges for reserve ------------------------------------------------------------------
    if let Op::Reserve(k) = op {
        if arena.count().checked_add(k).map(|want| arena.capacity() < want).unwrap_or(false) && expect != Expect::Overflows {
            fails.push(mk(
                C13,
                "reserve",
                false,
                &op,
                class,
                "capacity-too-small",
                format!("capacity {} < count {} + {}", arena.capacity(), arena.count(), k),
            ));
        }
        if arena != s.arena || obs::debug_hash(&arena) != obs::debug_hash(&s.arena) {
            fails.push(mk(
                C13,
                "reserve",
                true,
                &op,
                class,
                "reserve-changed-arena",
                "reserve changed something observable".into(),
            ));
        }
    }

    // a successor that is out of the model's reach is never expanded, but the model-free
    // invariants are statements about *every* arena a history of valid calls produces
    if fails.iter().any(|f| f.shaping) {
        fails.extend(crate::judges::j01(&arena, &obs1));
        fails.extend(crate::judges::j02(&obs1));
        fails.extend(crate::judges::removed_links(&obs1));
    }

    let mut next = State {
        arena,
        cur: cur1,
        issued: issued1,
        allocs: allocs1,
        model: model1,
        obs: obs1,
        key: 0,
        dbg: 0,
    };
    next.rekey();
    // properties that speak about which nodes are live *by the history of calls* are evaluated
    // on a successor the model cannot follow too, against the model's expectation of that call
    if advanced && fails.iter().any(|f| f.shaping) {
        fails.extend(crate::judges::liveness_observers(&next, cfg.target));
    }
    // the arena a differing clone_from left behind is an arena produced by a valid call
    for (from_pred, x, dir) in clone_from_results {
        let mut t = if from_pred { s.clone() } else { next.clone() };
        if let Ok(o) = ops::guarded(|| obs::observe_tolerant(&x)) {
            t.arena = x;
            t.obs = o;
            let mut more = Vec::new();
            more.extend(crate::judges::j01(&t.arena, &t.obs));
            let cyc = crate::judges::j02(&t.obs);
            let acyclic = cyc.is_empty();
            more.extend(cyc);
            more.extend(crate::judges::removed_links(&t.obs));
            if acyclic && t.obs.len() == t.model.count() {
                if cfg.target & C10 != 0 {
                    more.extend(crate::free::c10_law(&t.arena, &t.obs));
                }
                if cfg.target & C11 != 0 {
                    if let Ok(v) = ops::guarded(|| crate::judges::c11(&t)) {
                        more.extend(v);
                    }
                }
                if cfg.target & C06 != 0 {
                    if let Ok(v) = ops::guarded(|| crate::judges::c06(&t)) {
                        more.extend(v);
                    }
                }
            }
            for mut f in more {
                f.detail = format!("after {dir}: {}", f.detail);
                fails.push(f);
            }
        }
    }
    // configuration-independent: Debug renderings and outcome texts only, no derived hashes of library types
    let digest = obs::hash64(&(s.dbg, &op, outcome.digest_form(), next.dbg));
    StepResult {
        outcome,
        next: Some(next),
        failures: fails,
        class,
        digest,
    }
}

/// Replay an op list from a fresh arena with no judging beyond "was it enabled".
/// Returns the final state (used for conformance replays and `--replay`).
pub fn replay_plain(init: Arena<Payload>, path: &[Op]) -> State {
    let cfg = JudgeCfg::default();
    let mut s = State::initial(init);
    for op in path {
        let r = step(&s, *op, &cfg);
        match r.next {
            Some(n) => s = n,
            None => break,
        }
    }
    s
}
