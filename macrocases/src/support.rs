//! Support code for the generated cases: evaluation log, root forms, tree comparison.
#![allow(dead_code)]
use indextree::{Arena, NodeId};
use std::cell::RefCell;

thread_local! { static LOG: RefCell<Vec<u32>> = const { RefCell::new(Vec::new()) }; }

pub fn log(k: u32) {
    LOG.with(|l| l.borrow_mut().push(k));
}
pub fn reset_log() {
    LOG.with(|l| l.borrow_mut().clear());
}
pub fn take_log() -> Vec<u32> {
    LOG.with(|l| std::mem::take(&mut *l.borrow_mut()))
}

/// expected shape: payload code + children
pub struct T(pub u32, pub &'static [T]);

/// something with a field and a method that happen to be called `arena`
pub struct Holder {
    pub arena: u32,
}
impl Holder {
    pub fn arena(&self) -> u32 {
        self.arena
    }
}

/// Payload types the cases are instantiated with: `u32` itself, and `NodeId` (an arena of links
/// to nodes of *another* arena: a macro that dispatches on the type of an entry must still treat
/// such an entry as a value).
pub trait Pay: Clone + PartialEq + std::fmt::Debug + 'static {
    fn of(code: u32) -> Self;
    /// number of instances alive on this thread, for payload types that count them
    fn alive() -> Option<i64> {
        None
    }
}
impl Pay for u32 {
    fn of(code: u32) -> u32 {
        code
    }
}
thread_local! { static FOREIGN: (Arena<u8>, Vec<NodeId>) = {
    let mut a = Arena::new();
    let ids = (0..64).map(|i| a.new_node(i as u8)).collect();
    (a, ids)
}; }
thread_local! { static ALIVE: std::cell::Cell<i64> = const { std::cell::Cell::new(0) }; }
/// A payload with drop glue that counts its instances: a value moved into the arena must be
/// dropped exactly once, and not before its node goes away.
#[derive(PartialEq, Debug)]
pub struct Tracked(pub u32);
impl Tracked {
    fn born() {
        ALIVE.with(|a| a.set(a.get() + 1));
    }
}
impl Clone for Tracked {
    fn clone(&self) -> Self {
        Tracked::born();
        Tracked(self.0)
    }
}
impl Drop for Tracked {
    fn drop(&mut self) {
        ALIVE.with(|a| a.set(a.get() - 1));
    }
}
impl Pay for Tracked {
    fn of(code: u32) -> Tracked {
        Tracked::born();
        Tracked(code)
    }
    fn alive() -> Option<i64> {
        Some(ALIVE.with(|a| a.get()))
    }
}
impl Pay for NodeId {
    /// ids of a foreign arena, chosen so that they are also valid positions of the arena under test
    fn of(code: u32) -> NodeId {
        FOREIGN.with(|f| f.1[(code % 7) as usize])
    }
}

impl Pay for &'static NodeId {
    /// a *reference* to an id of a foreign arena: a value like any other (an outline arena whose payloads
    /// point into a list of ids kept elsewhere)
    fn of(code: u32) -> &'static NodeId {
        thread_local! { static LEAKED: &'static [NodeId] = FOREIGN.with(|f| &*Box::leak(f.1.clone().into_boxed_slice())); }
        LEAKED.with(|l| &l[(code % 7) as usize])
    }
}

/// for entries spelled as a method call on a RefCell guard (a temporary in tail position)
pub struct Noter;
impl Noter {
    pub fn note<P: Pay>(&mut self, k: u32, code: u32) -> P {
        log(k);
        P::of(code)
    }
}

/// Root forms: 0 = value (no pre-existing node), 1 = fresh NodeId, 2 = NodeId with two children,
/// 3 = NodeId that is itself a middle child (and has one child of its own)
pub fn setup<P: Pay>(arena: &mut Arena<P>, form: u32) -> (Option<NodeId>, Vec<u32>) {
    match form {
        0 => (None, vec![]),
        1 => (Some(arena.new_node(P::of(9000))), vec![]),
        2 => {
            let r = arena.new_node(P::of(9000));
            r.append_value(P::of(9001), arena);
            r.append_value(P::of(9002), arena);
            (Some(r), vec![9001, 9002])
        }
        3 => {
            let p = arena.new_node(P::of(8000));
            p.append_value(P::of(8001), arena);
            let r = p.append_value(P::of(9000), arena);
            p.append_value(P::of(8003), arena);
            r.append_value(P::of(9001), arena);
            (Some(r), vec![9001])
        }
        4 => {
            // a fresh NodeId root in an arena with one removed, not yet recycled slot
            let x = arena.new_node(P::of(7000));
            let r = arena.new_node(P::of(9000));
            x.remove(arena);
            (Some(r), vec![])
        }
        _ => {
            // a value root in an arena where remove_subtree left three free slots
            let x = arena.new_node(P::of(7000));
            x.append_value(P::of(7001), arena);
            x.append_value(P::of(7002), arena);
            x.remove_subtree(arena);
            (None, vec![])
        }
    }
}

fn compare<P: Pay>(arena: &Arena<P>, id: NodeId, expect_payload: u32, pre: &[u32], kids: &[T], path: &str) -> Result<usize, String> {
    let node = arena.get(id).ok_or_else(|| format!("{path}: id not in arena"))?;
    if node.is_removed() {
        return Err(format!("{path}: node is removed"));
    }
    if *node.get() != P::of(expect_payload) {
        return Err(format!("{path}: payload {:?} but {:?} (code {}) was written", node.get(), P::of(expect_payload), expect_payload));
    }
    let children: Vec<NodeId> = id.children(arena).collect();
    if children.len() != pre.len() + kids.len() {
        return Err(format!(
            "{path}: has {} children {:?}, the literal writes {} after {} existing ones",
            children.len(),
            children.iter().map(|c| format!("{:?}", arena[*c].get())).collect::<Vec<_>>(),
            kids.len(),
            pre.len()
        ));
    }
    for (i, p) in pre.iter().enumerate() {
        if *arena[children[i]].get() != P::of(*p) {
            return Err(format!("{path}: existing child {i} is no longer first (found {:?})", arena[children[i]].get()));
        }
    }
    let mut n = 1;
    for (i, k) in kids.iter().enumerate() {
        let c = children[pre.len() + i];
        if arena[c].parent() != Some(id) {
            return Err(format!("{path}/{}: parent link does not name {path}", k.0));
        }
        n += compare(arena, c, k.0, &[], k.1, &format!("{path}/{}", k.0))?;
    }
    // reverse direction agrees too
    let back: Vec<NodeId> = id.children(arena).rev().collect();
    if back.iter().rev().copied().collect::<Vec<_>>() != children {
        return Err(format!("{path}: children().rev() disagrees with children()"));
    }
    Ok(n)
}

#[allow(clippy::too_many_arguments)]
pub fn check<P: Pay>(
    arena: &Arena<P>,
    ret: NodeId,
    given: Option<NodeId>,
    pre: Vec<u32>,
    count0: usize,
    live0: usize,
    root_payload: u32,
    kids: &'static [T],
    written: u32,
) -> Result<(), String> {
    // payloads with drop glue: exactly the payloads of the live nodes are alive now
    let live_nodes = arena.iter().filter(|n| !n.is_removed()).count() as i64;
    if let Some(alive) = P::alive() {
        if alive != live_nodes {
            return Err(format!("{} payload instance(s) alive but {} live node(s): a payload was dropped early / twice or leaked", alive, live_nodes));
        }
    }
    let log = take_log();
    let want: Vec<u32> = (0..written + 2).collect();
    if log != want {
        return Err(format!("evaluation order/count: log {:?}, expected each of arena, root, nodes exactly once in textual order {:?}", log, want));
    }
    match given {
        Some(g) => {
            if ret != g {
                return Err(format!("returned {:?} instead of the given root id {:?}", ret, g));
            }
        }
        None => {
            let n = &arena[ret];
            if n.parent().is_some() || n.previous_sibling().is_some() || n.next_sibling().is_some() {
                return Err("the new root is not a parentless, sibling-less node".into());
            }
        }
    }
    let created_expected = written as usize + if given.is_none() { 1 } else { 0 };
    let live1 = arena.iter().filter(|n| !n.is_removed()).count();
    // free slots may be recycled, so count() grows by at most the number created; the number of
    // live nodes grows by exactly that number
    if arena.count() > count0 + created_expected || arena.count() < count0 || live1 != live0 + created_expected {
        return Err(format!(
            "{} node(s) created (count {} -> {}, live {} -> {}), {} expression(s) written",
            live1 as i64 - live0 as i64, count0, arena.count(), live0, live1, created_expected
        ));
    }
    let n = compare(arena, ret, root_payload, &pre, kids, "root")?;
    let _ = n;
    // the surroundings of a root that is a middle child are untouched
    if let Some(g) = given {
        if let Some(p) = arena[g].parent() {
            let sibs: Vec<P> = p.children(arena).map(|c| arena[c].get().clone()).collect();
            if sibs != vec![P::of(8001), P::of(9000), P::of(8003)] {
                return Err(format!("siblings of the root changed: {:?}", sibs));
            }
        }
    }
    Ok(())
}

pub fn selfcheck() {
    let mut a: Arena<u32> = Arena::new();
    let (r, pre) = setup(&mut a, 3);
    assert_eq!(pre, vec![9001]);
    assert!(a[r.unwrap()].parent().is_some());
}
