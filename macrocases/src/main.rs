//! E4 (C15): runs the generated `tree!` literals and compares each built tree with the literal.
mod support;
#[cfg(feature = "cases")]
mod cases;

fn main() {
    #[cfg(feature = "cases")]
    {
        let all = cases::all();
        let mut failures = Vec::new();
        let total = all.len();
        for (name, literal, f) in all {
            let r = std::panic::catch_unwind(f);
            let r = match r {
                Ok(r) => r,
                Err(e) => Err(format!(
                    "panicked: {}",
                    e.downcast_ref::<String>().cloned().or_else(|| e.downcast_ref::<&str>().map(|s| s.to_string())).unwrap_or_default()
                )),
            };
            let mut r = r;
            if r.is_ok() && <support::Tracked as support::Pay>::alive() != Some(0) {
                r = Err(format!("after the case and the drop of its arena {:?} tracked payload(s) are still counted alive (double drop or leak)", <support::Tracked as support::Pay>::alive()));
            }
            if let Err(m) = r {
                failures.push((name, literal, m));
            }
        }
        println!("CASES {}", total);
        for (name, literal, m) in &failures {
            println!("FAIL\t{}\t{}\t{}", name, literal.replace('\n', " "), m.replace('\n', " "));
        }
        println!("FAILURES {}", failures.len());
    }
    #[cfg(not(feature = "cases"))]
    {
        support::selfcheck();
        println!("support ok");
    }
}
