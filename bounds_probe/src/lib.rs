//! Compile-only: see Cargo.toml. Nothing here is run.
#![allow(dead_code, deprecated)]
use indextree::{Arena, NodeEdge, NodeId};

/// a payload type that implements no trait at all
pub struct Opaque(u32);

pub fn structural(a: &mut Arena<Opaque>) -> Option<NodeId> {
    let r = a.new_node(Opaque(0));
    let c = r.append_value(Opaque(1), a);
    let d = a.new_node(Opaque(2));
    r.checked_append(d, a).ok()?;
    r.checked_prepend(d, a).ok()?;
    c.checked_insert_after(d, a).ok()?;
    c.checked_insert_before(d, a).ok()?;
    r.append(d, a);
    r.prepend(d, a);
    c.insert_after(d, a);
    c.insert_before(d, a);
    d.detach(a);
    d.remove(a);
    c.remove_subtree(a);
    let _ = (a.count(), a.is_empty(), a.capacity(), a.get(r).map(|n| n.is_removed()), a.get_node_id(&a[r]), a.as_slice().len(), a.iter().count(), r.is_removed(a));
    a.get_mut(r)?.get_mut().0 += 1;
    a[r].get_mut().0 += 1;
    for n in a.iter_mut() {
        let _ = n.parent();
    }
    a.reserve(3);
    a.clear();
    let _: Arena<Opaque> = Arena::default();
    let _: Arena<Opaque> = Arena::with_capacity(3);
    Some(r)
}

/// the iterators are usable and double-ended whatever the payload type (and cloneable when it is Clone)
pub fn iterators(a: &Arena<Opaque>, x: NodeId) -> usize {
    let e: Option<NodeEdge> = NodeEdge::Start(x).next_traverse(a).and_then(|e| e.prev_traverse(a));
    x.children(a).rev().count()
        + x.following_siblings(a).rev().count()
        + x.preceding_siblings(a).rev().count()
        + x.ancestors(a).count()
        + x.predecessors(a).count()
        + x.reverse_children(a).count()
        + x.descendants(a).count()
        + x.traverse(a).count()
        + x.reverse_traverse(a).count()
        + e.map(|_| 1).unwrap_or(0)
}
pub fn iterator_clones(a: &Arena<OnlyClone>, x: NodeId) -> usize {
    x.children(a).clone().count()
        + x.following_siblings(a).clone().count()
        + x.preceding_siblings(a).clone().count()
        + x.ancestors(a).clone().count()
        + x.predecessors(a).clone().count()
        + x.reverse_children(a).clone().count()
        + x.descendants(a).clone().count()
        + x.traverse(a).clone().count()
        + x.reverse_traverse(a).clone().count()
}

/// Clone / PartialEq / Debug of the arena need exactly that trait of the payload
#[derive(Clone)]
pub struct OnlyClone(u32);
#[derive(PartialEq)]
pub struct OnlyEq(u32);
#[derive(Debug)]
pub struct OnlyDebug(u32);
pub fn values(a: &Arena<OnlyClone>, b: &Arena<OnlyEq>, c: &Arena<OnlyDebug>, id: NodeId) -> (Arena<OnlyClone>, bool, String, String) {
    let mut a2 = a.clone();
    a2.clone_from(a);
    (a2, b == b, format!("{:?}", c), format!("{:?} {:#?}", id.debug_pretty_print(c), id.debug_pretty_print(c)))
}

/// the printer's Display form needs Display only
pub struct OnlyDisplay(u32);
impl std::fmt::Display for OnlyDisplay {
    fn fmt(&self, f: &mut std::fmt::Formatter<'_>) -> std::fmt::Result {
        write!(f, "{}", self.0)
    }
}
pub fn printed(a: &Arena<OnlyDisplay>, id: NodeId) -> String {
    format!("{} {:#}", id.debug_pretty_print(a), id.debug_pretty_print(a))
}

#[cfg(feature = "deser")]
pub mod deser {
    use indextree::Arena;
    use serde::{Deserialize, Serialize};

    /// serialisable both ways, and nothing else (a unique ticket: not Clone, not Debug, not PartialEq)
    #[derive(Serialize, Deserialize)]
    pub struct Ticket(u32);
    pub fn round_trip(a: &Arena<Ticket>) -> Arena<Ticket> {
        serde_json::from_str(&serde_json::to_string(a).unwrap()).unwrap()
    }
    #[derive(Serialize)]
    pub struct WriteOnly(u32);
    pub fn write(a: &Arena<WriteOnly>) -> String {
        serde_json::to_string(a).unwrap()
    }
    #[derive(Deserialize)]
    pub struct ReadOnly(u32);
    pub fn read(s: &str) -> Arena<ReadOnly> {
        serde_json::from_str(s).unwrap()
    }
    /// ids alone are serialisable too
    pub fn ids(v: &[indextree::NodeId]) -> Vec<indextree::NodeId> {
        serde_json::from_str(&serde_json::to_string(v).unwrap()).unwrap()
    }
}

#[cfg(feature = "par_iter")]
pub mod par {
    use indextree::Arena;
    use rayon::prelude::*;
    use std::marker::PhantomData;

    /// shareable but not sendable (as if it held a lock guard): `par_iter` hands out `&Node<T>` only, so
    /// `T: Sync` is all it needs — C17: "par_iter() visits exactly the nodes of iter()" for every such T
    pub struct SyncOnly(pub u32, PhantomData<std::sync::MutexGuard<'static, ()>>);
    pub fn count(a: &Arena<SyncOnly>) -> (usize, usize) {
        (a.par_iter().filter(|n| !n.is_removed()).count(), a.iter().filter(|n| !n.is_removed()).count())
    }
    /// nothing but Sync: no Clone, Debug, PartialEq, Default
    pub struct Bare(pub u32);
    pub fn sum(a: &Arena<Bare>) -> u32 {
        a.par_iter().map(|n| n.get().0).sum()
    }
}
