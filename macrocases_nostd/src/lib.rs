//! E4b (C15, C17): the tree! macro used from a `#![no_std]` crate. Only has to build.
#![no_std]
extern crate alloc;
use alloc::string::String;
use alloc::vec::Vec;
use indextree::{macros::tree, Arena, NodeId};

/// every shape class the macro's code generation distinguishes: flat, nested at the tail, nested
/// followed by siblings on outer levels (one and several levels up), empty groups, trailing commas,
/// value root and NodeId root
pub fn build_all() -> (usize, Vec<u32>) {
    let mut a: Arena<u32> = Arena::new();
    let r = tree!(&mut a, 1 => { 2, 3, 4 });
    let _ = tree!(&mut a, 10 => { 11 => { 12 => { 13 } } });
    let _ = tree!(&mut a, 20 => { 21 => { 22 }, 23 });
    let _ = tree!(&mut a, 30 => { 31 => { 32 => { 33 => { 34 } } }, 35 => { 36 }, 37, });
    let _ = tree!(&mut a, 40 => {}, );
    let _ = tree!(&mut a, 50);
    let n: NodeId = a.new_node(60);
    let _ = tree!(&mut a, n => { 61 => { 62, 63 => { 64 }, }, 65 });
    let order: Vec<u32> = r.descendants(&a).map(|i| *a[i].get()).collect();
    (a.count(), order)
}

pub fn strings() -> usize {
    let mut a: Arena<String> = Arena::new();
    let _ = tree!(&mut a, String::from("r") => { String::from("a") => { String::from("b") }, String::from("c") });
    a.count()
}
